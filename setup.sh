#!/bin/bash
# Builds the framework from files on disk only (offline).
set -e
cd "$(dirname "$0")"
export CARGO_NET_OFFLINE=true
(cd sim && cargo build --release --offline && cargo build --profile shipping --offline)
if [ -x memsim/setup.sh ]; then memsim/setup.sh; fi
echo "setup done"
