#!/usr/bin/env python3
"""Regenerates MANIFEST.json (kept as a script so that the per-check texts stay in one reviewable place)."""
import json, sys

GUARD = "ten0_serde_avro_fast_verif"

def check(pid, level, text, design_ref, note, technique, engine="avrosim"):
    return {
        "property_id": pid,
        "quick_cmd": f"./check {pid} quick",
        "thorough_cmd": f"./check {pid} thorough",
        "evidence_file": f"evidence/{pid}.json",
        "replay_cmd_template": f"./check {pid} --replay {{path}}",
        "engine": engine,
        "level_claimed": {"category": level, "text": text, "design_ref": design_ref},
        "level_note": note,
        "technique": technique,
    }

checks = [
    check("C04", "exploration",
          "Seeded search over fault-derived inputs (hostile lengths/counts/indices spliced into valid encodings, bit flips, truncation, nesting streams up to 200000 levels) x limit configurations x slice/reader paths, each decode executed in a child worker process with allocator, stack, source-step and callback monitors; two-sided limit oracles on valid encodings. Sampling, not proof: the 'every byte string' clause is sampled, the resource clauses are what the simulation decides. Long streams of valid datums through ONE deserializer state under limits each datum just fits (limits are per datum; the memory bound is stated over the whole stream), nesting streams retried on one state after every refusal, a refusing caller whose errors quote the value.",
          "DESIGN.md §4 C04",
          "Trusts the reference datum encoder (to aim hostile numbers and to know which inputs are valid), the SimAlloc accounting, an 8 MiB main-thread stack in worker processes, and a 60 s wall-clock hang detector outside the simulated system; the ignoring target is the simulator's own counting visitor, so unbounded work is normally seen as a callback count first.",
          "deterministic simulation: seeded fault-derived inputs + simulated source/allocator monitors in isolated worker processes"),
    check("C05", "exploration",
          "Seeded search over writer histories x codec x level x approx_block_size x flush/push patterns, files read back through the slice reader and simulated stream readers (refill schedules down to 1 byte, cuts inside block headers / codec trailers / sync markers, BufReader capacities around 8192); oracle: every call Ok, exactly the written values then a stable end of stream, same user metadata. Fault-free configuration of the container world, run separately from C15-C17. Long histories (hundreds of blocks, more than 65 535 objects in one block, size and compressibility patterns over the history), contents from all zeros to incompressible with compressed lengths aimed at the encoders' buffer marks, and earlier writers on the same configuration (also ones whose build failed) are part of the sampled space.",
          "DESIGN.md §4 C05",
          "Trusts the simulator's Val/Presented/Capture caller stubs (canonical and documented-equivalent serde calls; capturing and partly ignoring targets); xz presets 7-9 only in a small fraction of scenarios (cost).",
          "deterministic simulation: seeded op histories + simulated BufRead refill schedules, real writer/reader/codecs"),
    check("C06", "exploration",
          "Refinement against an independent reference container model written from the specification: direction A, every crate-written file must be accepted by the reference parser (magic, metadata, codec framing through the codec libraries' own APIs, CRC-32 big-endian over uncompressed data, sync, counts) and decode to the written values; direction B, reference-written files under PRNG-chosen free choices (partitioning, metadata order/splitting/negative counts, absent avro.codec, datum block layouts) and apache-avro-written files must be read by the crate through slice and simulated stream readers; apache-avro must read the crate's files. Long files in both directions, including reference-written runs of thousands of blocks that hold no objects.",
          "DESIGN.md §4 C06",
          "The reference model (written from the specification) is the first judge; apache-avro 0.17 is linked as second implementation on the schema subset with an obvious Value mapping (no logical types, no zero-width values, no maps in files it writes).",
          "deterministic simulation: refinement against an executable reference model under seeded histories and refill schedules"),
    check("C11", "fault_enumeration",
          "For every generated (schema, bytes, target) the refill-partition space is enumerated: every Fixed(k) for k=1..len (len<=64), one refill boundary after every byte inside every multi-byte token, random cyclic plans, BufReader capacities 1..16; the reader outcome (value, bytes consumed, or Err) must equal the slice outcome. Same for single-object input and for whole container files of all six codecs (valid: call-by-call equality; damaged: outcome class + prefix relation). Scenarios are sampled, the schedule space of each is enumerated. Long streams of datums are decoded through one deserializer state per path (slice against eight reader plans), and continued after errors for as long as both paths stand at the same position (values compared).",
          "DESIGN.md §4 C11",
          "max_alloc_size=1MiB / max_seq_size=100000 on both paths; error text and consumption-on-error are not compared.",
          "deterministic simulation: exhaustive enumeration of BufRead refill partitions per seeded scenario, slice path as oracle"),
    check("C14", "fault_enumeration",
          "Histories of successful and failing serializations on one SerializerConfig; the failure is injected at every serde-call index (five caller-failure kinds incl. abandoned sequences) and after every sink byte, for every attempt of the history (sampled above a cap), plus multi-failure histories; after the failing attempt and at the end two probes must be byte-identical to a fresh configuration's output, successful attempts too; no panic with debug assertions live. One long history per configuration in one scenario in forty (hundreds of attempts, a drawn share failing); re-entrant serializations; successive container Writers of other codecs and levels on the configuration.",
          "DESIGN.md §4 C14",
          "Main lane built with debug-assertions and overflow-checks on, second lane built as the crate ships (both off); values conform to the schema so the only failures are injected ones.",
          "deterministic simulation: enumeration of caller-failure and sink-fault points over seeded serialization histories, fresh configuration as reference"),
    check("C15", "exploration",
          "Seeded writer histories with failing values (failure at an arbitrary serde call / depth), pushes, flushes, into_inner / drop x codec x approx_block_size; after EVERY API call that returned, the bytes accepted by the sink (= what survives a crash there) are judged by the reference container parser and datum decoder: complete valid file, values a prefix of the accepted ones, all of them after finish_block / into_inner / drop, failed values contribute nothing, snapshots monotone. Long histories (hundreds of calls, 65 536 and more objects in one block) are judged call by call too.",
          "DESIGN.md §4 C15",
          "Sink accepts everything (sink faults are C16's) except, in a quarter of the scenarios, one cleanly refused write of an explicit finish_block (in half of those a second refusal, at the retry or one or two flushes later) followed by a healthy sink; a value whose call returned the sink's error may or may not reach the file, every call that returned Ok must (the statement's 'whenever a call has returned without error' covers the calls after it); crash = nothing after the last accepted byte exists.",
          "deterministic simulation: crash-point snapshots after every call of seeded histories, judged by a reference model"),
    check("C16", "fault_enumeration",
          "Per workload: accept plans Fixed(k) for 12 values of k around the block-header and sync-marker sizes plus random cycles, on sinks with and without write_vectored; ErrorKind::Interrupted at every sink call index (singly and in bursts); hard error (3 kinds) and Ok(0) at every sink call index. Oracle: schedule-only configurations give every call Ok and a byte-identical stream; a hard fault makes the call during which it fired return Err with the bytes accepted before it a prefix of the baseline. Interruptions every 2nd / 3rd / 5th call over the writer's whole life; long histories; big-blob workloads whose compressed length is aimed at the encoders' buffer marks.",
          "DESIGN.md §4 C16",
          "After a CLEAN hard failure (nothing of the failing call accepted) the history continues on the recovered sink and the final stream must be a valid file (reference parser) holding every other call's values in order plus all or none of the failed call's (serialize_all excepted); after a failure that accepted part of a block nothing more is asserted; faults are not scheduled inside Drop.",
          "deterministic simulation: enumeration of sink accept schedules and fault points over seeded writer histories"),
    check("C17", "fault_enumeration",
          "Per valid file (crate- or reference-written, all codecs): truncation at every byte offset x 5 reader kinds, every sync byte damaged, every block count and size rewritten to 8 hostile values, snappy CRC / payload damage, a byte xored at every offset, an I/O error (Other / UnexpectedEof / Interrupted) at every source call index of 4 stream readers. Oracles per fault class: genuine prefix only, corruption reported, error reported once then end of stream, no panic / endless loop, Ok(None) sticky. Long files (hundreds of blocks, runs of empty blocks, more than 65 535 objects in a block) with the per-block classes sampled; two faults at once (cut and damaged byte).",
          "DESIGN.md §4 C17",
          "Count/size oracles on schemas whose values are >= 1 byte wide and have no zero-width array elements; a CRC-32 collision would be reported.",
          "deterministic simulation: enumeration of truncation / corruption / I/O-error fault points over seeded files"),
    check("C18", "fault_enumeration",
          "Per (schema, value): format check (C3 01 ++ fingerprint ++ exactly the datum bytes, reference-decoded; little-endian CRC-64-AVRO cross-check on the plain subset), intact round trip under reader plans that put refill boundaries at every header offset, truncation at every length, every header byte set to every other value (2550 damages), reads under schemas with a different canonical form, sink faults at every call index of to_single_object. Hundreds of messages through one configuration and one source; names outside ASCII; failing schema constructions on the same thread before one parse in four.",
          "DESIGN.md §4 C18",
          "Canonical-form correctness for all schemas is C08's question; CRC-64 collisions between distinct canonical forms are assumed away.",
          "deterministic simulation: enumeration of header truncations / corruptions / refill boundaries / sink faults per seeded message"),
]

not_applicable = [
    ("C01", "Pure function of (schema, value): decode(encode(v))=v has no schedule, fault, clock, history or interleaving in it; deciding it is input generation against an oracle, to which this technique family adds nothing."),
    ("C02", "Pure function of (schema, value, serde presentation) judged by a reference encoder; no environment, fault or history dimension."),
    ("C03", "Pure function of (schema, byte string); block-layout variants and single-point malformations are inputs, not faults in flight (the reader-vs-slice and resource facets that do meet an environment are C11 and C04)."),
    ("C07", "Schema parsing / name resolution is a pure function of the JSON document; nothing for a simulator to schedule or break."),
    ("C08", "Fingerprint = CRC-64-AVRO(canonical form) is a pure function of the schema; the GF(2)-linearity argument in its quantifier is algebra, not simulation."),
    ("C09", "Schema JSON preservation / regeneration is a pure function of the document or node graph."),
    ("C12", "'Skipping consumes what reading would' is a pure function of (schema, bytes, target); its only environment-facing facet (skipping over a refilling reader) is exercised inside C11's schedule space without a separate claim."),
    ("C13", "Record bytes vs field presentation order is a pure function of the presented call sequence on a fresh serializer; the history/fault facet of the same machinery is C14."),
    ("C19", "Totality of schema construction is a statement over all texts / node vectors; single call, no environment (crash detection by child process would be an input-fuzzing harness, not a simulation)."),
    ("C20", "Property of compile-time generated programs (derive macro output x values); no run-time schedule, fault or history."),
]

extra = json.load(open("manifest_extra.json"))

manifest = {
    "version": 1,
    "setup_cmd": "./setup.sh",
    "hooks": {
        "guard": GUARD,
        "enable": "no hook is compiled into /repo: every seam the simulator needs is already a public type parameter or builder option (W: Write, R: BufRead, T: Serialize, WriterBuilder::sync_marker, DeserializerConfig / ReaderRead limits). The guard name is reserved; checks build /repo as it is (path dependency) with the codec features deflate,bzip2,snappy,xz,zstandard enabled.",
        "baseline_off_cmd": "cd /repo && cargo test --workspace --no-fail-fast --offline",
        "source_commits": [],
        "add_only": True,
    },
    "engines": [
        {"name": "avrosim", "path": "sim", "serves_properties": ["C04", "C05", "C06", "C11", "C14", "C15", "C16", "C17", "C18"],
         "kind_free_text": "single-binary deterministic simulator: seeded scenario generation, SimSource (BufRead refill plans + I/O faults + truncation), SimSink (accept plans + Interrupted / hard error / zero accept), SimAlloc (measuring global allocator), caller stubs (Presented with caller-failure faults / Capture), reference datum + container models, delta-debugging, replay files, determinism self-check"},
    ],
    "checks": checks,
    "not_applicable": [{"property_id": p, "reason": r} for p, r in not_applicable],
    "notes": "Exit codes: 0 held, 1 VIOLATION (with replay file, confirmed in a fresh process), 2 harness error (build failure, non-replaying failure, determinism mismatch). VERIF_SEED (default 20260927) decides everything; VERIF_TIER overrides the tier argument. Genuine defects found and repaired are listed in known_findings.json (all status=fixed; their minimised scenarios in replays/corpus/ are re-executed by every run).",
}
if extra:
    for e in extra.get("engines", []):
        manifest["engines"].append(e)
    for c in extra.get("checks", []):
        manifest["checks"].append(c)
    manifest["checks"].sort(key=lambda c: c["property_id"])
    drop = {c["property_id"] for c in extra.get("checks", [])}
    manifest["not_applicable"] = [n for n in manifest["not_applicable"] if n["property_id"] not in drop]
json.dump(manifest, open("MANIFEST.json", "w"), indent=1)
print("MANIFEST.json written:", len(manifest["checks"]), "checks,", len(manifest["not_applicable"]), "not applicable")
