#!/usr/bin/env python3
"""Rewrites DESIGN.md §12 from mutants/results.json and seeded/*/meta.json."""
import json, glob, os, re
root = os.path.dirname(os.path.abspath(__file__))
res = json.load(open(os.path.join(root, "mutants", "results.json")))
lines = []
lines.append("## 12. Sensitivity: which check catches which change\n")
lines.append("Two sources of deliberate, property-breaking changes, all of which compile and leave the pinned 140-test suite green:\n")
lines.append("* **`mutants/mutants.py`** — %d edits written by the author of the checks (kept as exact-text replacements; `mutants.py run` applies each to `/repo`, runs the expected quick check(s), reverts). %d of %d behave as expected; benign controls must stay quiet.\n" % (len(res), sum(1 for v in res.values() if v["as_expected"]), len(res)))
lines.append("* **`seeded/`** — changes written by fresh sub-agents that were given only a property's text and a scratch worktree (nothing from `/verif`), each with a demonstration test; every one was re-verified in a fresh worktree by `seeded/verify.sh` (patch applies, suite green with it, demo fails with it, demo passes without it) before the checks were run against it.\n")
lines.append("\n### 12.1 Mutants\n")
lines.append("| mutant | expected | result (quick tier) | note |")
lines.append("|---|---|---|---|")
for name in sorted(res):
    v = res[name]
    exp = ", ".join(v["expected_to_catch"]) if v["expected_to_catch"] else "none (benign control)"
    runs = "; ".join("%s: %s" % (r["prop"], {0: "quiet", 1: "VIOLATION", 2: "harness error"}.get(r["exit"], "exit %s" % r["exit"])) for r in v["runs"])
    kinds = ""
    for r in v["runs"]:
        if r["violations"]:
            m = re.search(r"violation kind=(\S+)", r["violations"][0])
            if m:
                kinds = " — e.g. `%s`" % m.group(1)
                break
    lines.append("| `%s` | %s | %s%s | %s |" % (name, exp, runs, kinds, (v.get("note") or "").replace("|", "/")))
lines.append("\n### 12.2 Independently seeded changes\n")
lines.append("| id | breaks | what it needs in order to manifest | caught by (quick tier) |")
lines.append("|---|---|---|---|")
for mf in sorted(glob.glob(os.path.join(root, "seeded", "*", "meta.json"))):
    m = json.load(open(mf))
    caught = ", ".join(m["caught_by"]) if m["caught_by"] else "**not caught**"
    also = [r["check"] for r in m["checks_run_against_it"]["results"] if r["exit"] == 0]
    if also:
        caught += " (quiet: %s)" % ", ".join(also)
    if "only after" in (m.get("note") or ""):
        caught += " †"
    lines.append("| `%s` | %s | %s | %s |" % (m["id"], m["property_broken"], m["needs_to_manifest"].replace("|", "/"), caught))
n_dagger = sum(1 for mf in glob.glob(os.path.join(root, "seeded", "*", "meta.json")) if "only after" in (json.load(open(mf)).get("note") or ""))
lines.append("\n† caught only after the harness was strengthened in response to that change (%d of %d; the `note` in its `meta.json` says what was missing and what was added). All others were caught by the harness as it stood when the change was written, except those marked **not caught**: changes kept as boundary cases because, on reading, they do not break the property as stated (their `meta.json` argues why; no check was added or loosened for them). `seeded/run_all.sh` re-runs the whole corpus against the current harness.\n" % (n_dagger, len(glob.glob(os.path.join(root, "seeded", "*", "meta.json")))))
benign = sorted(glob.glob(os.path.join(root, "seeded", "benign", "*", "meta.json")))
if benign:
    lines.append("\n### 12.2b Independently written property-PRESERVING changes (false-alarm test)\n")
    lines.append("Written by fresh sub-agents asked for a plausible maintainer change that keeps the property true while visibly changing something internal or unspecified (error wording and moment, buffer sizes and growth, number and size of read / write calls, where blocks are cut, optional codec frame fields, order of header checks ...). Every one of the ten quick checks was run against each change of rounds 1 and 2, the property's own check and the closely related ones against each change of round 3 (long-lived buffers and data-dependent strategies done right); all must stay quiet.\n")
    lines.append("| id | written against | what changes (the property does not speak of it) | checks run | alarms |")
    lines.append("|---|---|---|---|---|")
    for mf in benign:
        m = json.load(open(mf))
        lines.append("| `%s` | %s | %s | %s | %s |" % (m["id"], m["written_against"], m["what_changes"].replace("|", "/"), ", ".join(m["checks_quiet"]), ", ".join(m["alarms"]) if m["alarms"] else "none"))
extra = os.path.join(root, "seeded", "LESSONS.md")
if os.path.exists(extra):
    lines.append("\n### 12.3 What the seeded changes taught the harness\n")
    lines.append(open(extra).read())
text = "\n".join(lines) + "\n"
p = os.path.join(root, "DESIGN.md")
s = open(p).read()
begin, end = "<!-- SENSITIVITY-BEGIN -->", "<!-- SENSITIVITY-END -->"
if begin in s:
    s = s[: s.index(begin) + len(begin)] + "\n" + text + s[s.index(end):]
else:
    marker = "## 13. False alarms met while building"
    s = s.replace(marker, begin + "\n" + text + end + "\n\n" + marker)
open(p, "w").write(s)
print("DESIGN.md §12 rewritten:", len(res), "mutants,", len(glob.glob(os.path.join(root, "seeded", "*", "meta.json"))), "seeded changes")
