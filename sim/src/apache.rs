//! Second implementation for C06: apache-avro 0.17 reads the crate's files and writes files for the crate's
//! reader, on the schema subset where `Val <-> apache_avro::types::Value` is a total, obvious mapping
//! (no logical types; no zero-width values: apache-avro 0.17 cannot read a block whose uncompressed data is empty).

use crate::ast::{self, Env, Ty};
use crate::ref_container::Codec;
use crate::val::Val;
use apache_avro::types::Value;

pub fn eligible(env: &Env, ty: &Ty) -> bool {
	fn plain(env: &Env, ty: &Ty, depth: u32) -> bool {
		if depth > 12 {
			return true;
		}
		match ty {
			Ty::Null | Ty::Boolean | Ty::Int | Ty::Long | Ty::Float | Ty::Double | Ty::Bytes | Ty::String | Ty::Ref(_) => true,
			Ty::Enum { .. } => true,
			Ty::Fixed { size, .. } => *size > 0,
			Ty::Array(t) | Ty::Map(t) => plain(env, t, depth + 1),
			Ty::Union(ts) => ts.iter().all(|t| plain(env, t, depth + 1)),
			Ty::Record { fields, .. } => fields.iter().all(|(_, t)| plain(env, t, depth + 1)),
			_ => false,
		}
	}
	// (apache-avro holds names to the specification's ASCII grammar)
	!ast::has_exotic_names(ty) && plain(env, ty, 0) && crate::container::min_width(env, ty, 0) >= 1 && !crate::container::has_zero_width_elements(env, ty, 0)
}

pub fn to_value(env: &Env, ty: &Ty, v: &Val) -> Option<Value> {
	Some(match (env.resolve(ty), v) {
		(Ty::Null, Val::Null) => Value::Null,
		(Ty::Boolean, Val::Bool(b)) => Value::Boolean(*b),
		(Ty::Int, Val::Int(i)) => Value::Int(*i),
		(Ty::Long, Val::Long(i)) => Value::Long(*i),
		(Ty::Float, Val::Float(b)) => Value::Float(f32::from_bits(*b)),
		(Ty::Double, Val::Double(b)) => Value::Double(f64::from_bits(*b)),
		(Ty::Bytes, Val::Bytes(b)) => Value::Bytes(b.clone()),
		(Ty::String, Val::Str(s)) => Value::String(s.clone()),
		(Ty::Fixed { size, .. }, Val::Fixed(b)) => Value::Fixed(*size as usize, b.clone()),
		(Ty::Enum { .. }, Val::Enum(i)) => Value::Enum(*i as u32, ast::symbol(*i).to_owned()),
		(Ty::Array(t), Val::Array(items)) => Value::Array(items.iter().map(|x| to_value(env, t, x)).collect::<Option<Vec<_>>>()?),
		(Ty::Map(t), Val::Map(e)) => Value::Map(e.iter().map(|(k, x)| to_value(env, t, x).map(|x| (k.clone(), x))).collect::<Option<_>>()?),
		(Ty::Union(ts), Val::Union(i, inner)) => Value::Union(*i as u32, Box::new(to_value(env, ts.get(*i as usize)?, inner)?)),
		(Ty::Record { fields, .. }, Val::Record(vals)) => Value::Record(
			fields
				.iter()
				.zip(vals)
				.map(|((f, t), x)| to_value(env, t, x).map(|x| (ast::field_name(*f).to_owned(), x)))
				.collect::<Option<Vec<_>>>()?,
		),
		_ => return None,
	})
}

pub fn from_value(env: &Env, ty: &Ty, v: &Value) -> Option<Val> {
	Some(match (env.resolve(ty), v) {
		(Ty::Null, Value::Null) => Val::Null,
		(Ty::Boolean, Value::Boolean(b)) => Val::Bool(*b),
		(Ty::Int, Value::Int(i)) => Val::Int(*i),
		(Ty::Long, Value::Long(i)) => Val::Long(*i),
		(Ty::Float, Value::Float(f)) => Val::Float(f.to_bits()),
		(Ty::Double, Value::Double(f)) => Val::Double(f.to_bits()),
		(Ty::Bytes, Value::Bytes(b)) => Val::Bytes(b.clone()),
		(Ty::String, Value::String(s)) => Val::Str(s.clone()),
		(Ty::Fixed { .. }, Value::Fixed(_, b)) => Val::Fixed(b.clone()),
		(Ty::Enum { symbols, .. }, Value::Enum(i, name)) => {
			if *i as u16 >= *symbols || ast::symbol(*i as u16) != name {
				return None;
			}
			Val::Enum(*i as u16)
		}
		(Ty::Array(t), Value::Array(items)) => Val::Array(items.iter().map(|x| from_value(env, t, x)).collect::<Option<Vec<_>>>()?),
		(Ty::Map(t), Value::Map(m)) => {
			let mut e: Vec<(String, Val)> = m.iter().map(|(k, x)| from_value(env, t, x).map(|x| (k.clone(), x))).collect::<Option<_>>()?;
			e.sort_by(|a, b| a.0.cmp(&b.0));
			Val::Map(e)
		}
		(Ty::Union(ts), Value::Union(i, inner)) => Val::Union(*i as u16, Box::new(from_value(env, ts.get(*i as usize)?, inner)?)),
		(Ty::Record { fields, .. }, Value::Record(vals)) => {
			if fields.len() != vals.len() {
				return None;
			}
			Val::Record(fields.iter().zip(vals).map(|((_, t), (_, x))| from_value(env, t, x)).collect::<Option<Vec<_>>>()?)
		}
		_ => return None,
	})
}

/// map entries sorted by key (apache-avro holds maps in a HashMap)
pub fn normalise(v: &Val) -> Val {
	match v {
		Val::Array(items) => Val::Array(items.iter().map(normalise).collect()),
		Val::Map(e) => {
			let mut e: Vec<(String, Val)> = e.iter().map(|(k, x)| (k.clone(), normalise(x))).collect();
			e.sort_by(|a, b| a.0.cmp(&b.0));
			Val::Map(e)
		}
		Val::Record(f) => Val::Record(f.iter().map(normalise).collect()),
		Val::Union(i, inner) => Val::Union(*i, Box::new(normalise(inner))),
		other => other.clone(),
	}
}

fn codec_of(c: Codec) -> apache_avro::Codec {
	match c {
		Codec::Null => apache_avro::Codec::Null,
		Codec::Deflate(_) => apache_avro::Codec::Deflate,
		Codec::Bzip2(_) => apache_avro::Codec::Bzip2,
		Codec::Snappy => apache_avro::Codec::Snappy,
		Codec::Xz(_) => apache_avro::Codec::Xz,
		Codec::Zstd(_) => apache_avro::Codec::Zstandard,
	}
}

pub struct ApacheRead {
	pub values: Vec<Val>,
	pub user_meta: Vec<(String, Vec<u8>)>,
}

pub fn read_file(env: &Env, ty: &Ty, bytes: &[u8]) -> Result<ApacheRead, String> {
	let reader = apache_avro::Reader::new(bytes).map_err(|e| format!("apache-avro Reader::new: {e}"))?;
	let mut user_meta: Vec<(String, Vec<u8>)> = reader.user_metadata().iter().map(|(k, v)| (k.clone(), v.clone())).collect();
	user_meta.sort();
	let mut values = vec![];
	for (i, item) in reader.enumerate() {
		let v = item.map_err(|e| format!("apache-avro value {i}: {e}"))?;
		values.push(from_value(env, ty, &v).ok_or_else(|| format!("apache-avro value {i} does not have the schema's shape: {v:?}"))?);
	}
	Ok(ApacheRead { values, user_meta })
}

pub fn write_file(env: &Env, ty: &Ty, schema_json: &str, codec: Codec, values: &[Val], flush_every: usize, user_meta: &[(String, Vec<u8>)]) -> Result<Vec<u8>, String> {
	let schema = apache_avro::Schema::parse_str(schema_json).map_err(|e| format!("apache-avro rejects the schema: {e}"))?;
	let mut w = apache_avro::Writer::with_codec(&schema, Vec::new(), codec_of(codec));
	for (k, v) in user_meta {
		w.add_user_metadata(k.clone(), v).map_err(|e| format!("apache-avro add_user_metadata: {e}"))?;
	}
	for (i, v) in values.iter().enumerate() {
		let val = to_value(env, ty, v).ok_or("value not mappable")?;
		w.append(val).map_err(|e| format!("apache-avro append: {e}"))?;
		if flush_every > 0 && (i + 1) % flush_every == 0 {
			w.flush().map_err(|e| format!("apache-avro flush: {e}"))?;
		}
	}
	w.into_inner().map_err(|e| format!("apache-avro into_inner: {e}"))
}

/// apache-avro keeps maps in a `HashMap` with a per-process random hasher: a file it writes has a
/// run-dependent entry order, which would break replay — maps are left out of the files it writes
pub fn has_map(env: &Env, ty: &Ty, depth: u32) -> bool {
	if depth > 12 {
		return false;
	}
	match env.resolve(ty) {
		Ty::Map(_) => true,
		Ty::Array(t) => has_map(env, t, depth + 1),
		Ty::Union(ts) => ts.iter().any(|t| has_map(env, t, depth + 1)),
		Ty::Record { fields, .. } => fields.iter().any(|(_, t)| has_map(env, t, depth + 1)),
		_ => false,
	}
}
