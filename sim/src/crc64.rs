//! CRC-64-AVRO (Rabin fingerprint) bit by bit, from the specification's pseudo-code (no table).

pub const EMPTY: u64 = 0xc15d_213a_a4d7_a795;

pub fn crc64_avro(data: &[u8]) -> u64 {
	let mut fp = EMPTY;
	for &b in data {
		fp ^= b as u64;
		for _ in 0..8 {
			fp = (fp >> 1) ^ (EMPTY & (fp & 1).wrapping_neg());
		}
	}
	fp
}
