//! Runner: seeded generation, parallel execution (parallelism is *outside* the simulated system),
//! violation collection, delta-debugging, replay files, known findings, determinism sample,
//! evidence.

use crate::prng::{Fnv, Rng};
use serde::{de::DeserializeOwned, Serialize};
use serde_json::{json, Value};
use std::collections::{BTreeMap, BTreeSet};
use std::panic::{catch_unwind, AssertUnwindSafe};
use std::path::{Path, PathBuf};
use std::sync::atomic::{AtomicBool, AtomicU64, Ordering};
use std::sync::Mutex;
use std::time::Instant;

pub const DEFAULT_SEED: u64 = 20260927;
/// wall-clock hang detector threshold per scenario (scenarios take micro- to milliseconds)
pub const HANG_SECS: u64 = 300;
/// a confirmation run (one scenario, fresh process) that takes longer than this counts as not terminating
pub const CONFIRM_SECS: u64 = 120;

#[derive(Clone, Copy, Debug, PartialEq, Eq)]
pub enum Tier {
	Quick,
	Thorough,
}
impl Tier {
	pub fn name(self) -> &'static str {
		match self {
			Tier::Quick => "quick",
			Tier::Thorough => "thorough",
		}
	}
}

#[derive(Clone, Debug, PartialEq, Eq)]
pub struct Violation {
	/// oracle that fired + coarse location; shrinking keeps a step iff the same kind still fires
	pub kind: String,
	pub detail: String,
}
impl Violation {
	pub fn new(kind: impl Into<String>, detail: impl Into<String>) -> Self {
		// details quote values; values can be hundreds of KiB: keep the head and the tail
		let mut detail: String = detail.into();
		if detail.len() > 6000 {
			let head: String = detail.chars().take(3000).collect();
			let tail: String = detail.chars().rev().take(1500).collect::<Vec<_>>().into_iter().rev().collect();
			detail = format!("{head} …[{} bytes]… {tail}", detail.len());
		}
		Violation { kind: kind.into(), detail }
	}
}

#[derive(Default, Clone, Debug)]
pub struct Outcome {
	pub violation: Option<Violation>,
	/// state signatures of non-trivial sub-executions (a fault fired or a boundary probe was hit)
	pub sigs: Vec<u64>,
	/// sub-executions (decodes / attempts / fault points) evaluated
	pub evals: u64,
	/// simulated I/O steps (sink + source calls)
	pub steps: u64,
	/// per-fault-kind *fired* counters and reach probes
	pub counters: Vec<(&'static str, u64)>,
	/// digest of the event log (must be a pure function of the scenario and the code)
	pub digest: u64,
}
impl Outcome {
	pub fn count(&mut self, name: &'static str, n: u64) {
		if n == 0 {
			return;
		}
		if let Some(e) = self.counters.iter_mut().find(|(k, _)| *k == name) {
			e.1 += n;
		} else {
			self.counters.push((name, n));
		}
	}
	pub fn sig(&mut self, f: Fnv) {
		self.sigs.push(f.get());
	}
	pub fn fail(&mut self, kind: impl Into<String>, detail: impl Into<String>) {
		if self.violation.is_none() {
			self.violation = Some(Violation::new(kind, detail));
		}
	}
	pub fn failed(&self) -> bool {
		self.violation.is_some()
	}
	fn full_digest(&self) -> u64 {
		let mut f = Fnv::new();
		f.u64(self.digest).u64(self.evals).u64(self.steps);
		if let Some(v) = &self.violation {
			f.str(&v.kind);
		}
		for s in &self.sigs {
			f.u64(*s);
		}
		for (k, n) in &self.counters {
			f.str(k).u64(*n);
		}
		f.get()
	}
}

pub trait Prop: Sync {
	type Scn: Serialize + DeserializeOwned + Clone + Send + 'static;
	fn id(&self) -> &'static str;
	fn level(&self) -> &'static str;
	fn rule(&self) -> &'static str;
	fn assumptions(&self) -> Vec<String>;
	/// (runs, wall-clock cap in seconds) for a tier
	fn budget(&self, tier: Tier) -> (u64, u64);
	fn gen(&self, rng: &mut Rng, tier: Tier, run: u64) -> Self::Scn;
	fn exec(&self, scn: &Self::Scn) -> Outcome;
	/// strictly "smaller" candidate scenarios, most aggressive first
	fn shrink(&self, scn: &Self::Scn) -> Vec<Self::Scn>;
	/// run in child worker processes (process-killing outcomes are observed from the parent)
	fn isolated(&self) -> bool {
		false
	}
	/// counters (fault kinds fired, rare conditions reached) that a healthy run must see above zero
	fn expected_probes(&self) -> Vec<&'static str> {
		vec![]
	}
	fn components(&self) -> Value {
		json!({
			"real": ["serde_avro_fast (path dependency on /repo/serde_avro_fast, all codec features)", "serde", "flate2/miniz_oxide", "bzip2 (libbz2)", "snap", "crc32fast", "xz2 (liblzma)", "zstd (libzstd)"],
			"stubs": ["sink (SimSink)", "source (SimSource)", "sync-marker randomness (WriterBuilder::sync_marker)", "caller Serialize/Deserialize impls (Presented / Capture)", "allocator accounting (SimAlloc)"],
			"reference_models": ["ref_datum", "ref_container", "crc64_avro"]
		})
	}
}

// ---------------------------------------------------------------------------------------------
// panic capture

thread_local! {
	static LAST_PANIC: std::cell::RefCell<Option<String>> = const { std::cell::RefCell::new(None) };
	static QUIET: std::cell::Cell<bool> = const { std::cell::Cell::new(false) };
}

pub fn install_panic_hook() {
	let default = std::panic::take_hook();
	std::panic::set_hook(Box::new(move |info| {
		let quiet = QUIET.try_with(|q| q.get()).unwrap_or(false);
		if quiet {
			let msg = if let Some(s) = info.payload().downcast_ref::<&str>() {
				s.to_string()
			} else if let Some(s) = info.payload().downcast_ref::<String>() {
				s.clone()
			} else {
				"<non-string panic payload>".to_string()
			};
			let loc = info
				.location()
				.map(|l| format!("{}:{}", l.file(), l.line()))
				.unwrap_or_default();
			let _ = LAST_PANIC.try_with(|p| *p.borrow_mut() = Some(format!("{msg} @ {loc}")));
		} else {
			default(info);
		}
	}));
}

/// Run `f`, turning a panic into `Err(message @ location)`
pub fn catch<T>(f: impl FnOnce() -> T) -> Result<T, String> {
	let prev = QUIET.with(|q| q.replace(true));
	let r = catch_unwind(AssertUnwindSafe(f));
	QUIET.with(|q| q.set(prev));
	match r {
		Ok(v) => Ok(v),
		Err(_) => Err(LAST_PANIC
			.with(|p| p.borrow_mut().take())
			.unwrap_or_else(|| "<panic>".into())),
	}
}

/// Location part of a caught panic message, shortened to file:line relative to the crate
pub fn panic_site(msg: &str) -> String {
	match msg.rsplit_once(" @ ") {
		Some((_, loc)) => {
			let loc = loc.rsplit_once("serde_avro_fast/").map_or(loc, |(_, l)| l);
			// drop the line number: it must survive unrelated edits
			loc.rsplit_once(':').map_or(loc, |(f, _)| f).to_string()
		}
		None => "?".into(),
	}
}

pub fn exec_caught<P: Prop>(p: &P, scn: &P::Scn) -> Outcome {
	match catch(|| p.exec(scn)) {
		Ok(o) => o,
		Err(msg) => {
			let mut o = Outcome::default();
			let kind = if msg.contains("HARNESS") {
				format!("harness-panic:{}", panic_site(&msg))
			} else {
				format!("panic:{}", panic_site(&msg))
			};
			o.violation = Some(Violation::new(kind, msg));
			o
		}
	}
}

// ---------------------------------------------------------------------------------------------
// known findings

#[derive(Clone, Debug)]
pub struct KnownFinding {
	pub property: String,
	pub status: String,
	pub kind_prefix: String,
	pub what: String,
}

pub fn verif_root() -> PathBuf {
	if let Ok(p) = std::env::var("VERIF_ROOT") {
		return PathBuf::from(p);
	}
	// binary lives in <root>/sim/target/release/avrosim
	let exe = std::env::current_exe().unwrap_or_default();
	let mut p = exe.clone();
	for _ in 0..4 {
		p.pop();
	}
	if p.join("properties.jsonl").exists() {
		p
	} else {
		PathBuf::from("/verif")
	}
}

pub fn load_known_findings() -> Vec<KnownFinding> {
	let path = verif_root().join("known_findings.json");
	let Ok(text) = std::fs::read_to_string(&path) else {
		return vec![];
	};
	let Ok(v) = parse_deep::<Value>(&text) else {
		eprintln!("HARNESS-ERROR: cannot parse {}", path.display());
		std::process::exit(2);
	};
	let mut out = vec![];
	for e in v["findings"].as_array().cloned().unwrap_or_default() {
		out.push(KnownFinding {
			property: e["property"].as_str().unwrap_or("").to_string(),
			status: e["status"].as_str().unwrap_or("").to_string(),
			kind_prefix: e["kind_prefix"].as_str().unwrap_or("\u{0}").to_string(),
			what: e["what"].as_str().unwrap_or("").to_string(),
		});
	}
	out
}

// ---------------------------------------------------------------------------------------------

#[derive(serde_derive::Serialize, serde_derive::Deserialize)]
pub struct ReplayFile<S> {
	pub property: String,
	pub seed: u64,
	pub run: u64,
	pub expect_kind: String,
	pub detail: String,
	/// "shipping" when the violation was found by the binary built without debug assertions and overflow checks
	/// (`./check --replay` then uses that binary)
	#[serde(default, skip_serializing_if = "Option::is_none")]
	pub lane: Option<String>,
	pub scenario: S,
}

/// `Some("shipping")` in the second lane (harness and crate built like a release of the crate: no debug assertions,
/// wrapping arithmetic), `None` in the main lane (debug assertions and overflow checks on)
pub fn lane() -> Option<String> {
	std::env::var("VERIF_LANE").ok().filter(|s| !s.is_empty())
}

pub fn seed_from_env() -> u64 {
	let s = base_seed_from_env();
	// the second lane runs on another scenario stream derived from the same VERIF_SEED
	if lane().is_some() && std::env::var("VERIF_SEED_IS_DERIVED").is_err() {
		s ^ 0x5348_4950_5049_4e47
	} else {
		s
	}
}

fn base_seed_from_env() -> u64 {
	match std::env::var("VERIF_SEED") {
		Ok(s) if !s.trim().is_empty() => s.trim().parse::<u64>().unwrap_or_else(|_| {
			// accept negative / large ints by hashing the text
			crate::prng::fnv64(s.as_bytes())
		}),
		_ => DEFAULT_SEED,
	}
}

pub fn workers_from_env() -> usize {
	std::env::var("VERIF_WORKERS")
		.ok()
		.and_then(|s| s.parse().ok())
		.unwrap_or_else(|| std::thread::available_parallelism().map(|n| n.get()).unwrap_or(8).min(16))
}

struct Found<S> {
	run: u64,
	scn: S,
	violation: Violation,
}

#[derive(Default)]
struct Acc {
	evaluations: u64,
	scenarios: u64,
	steps: u64,
	sigs: BTreeSet<u64>,
	counters: BTreeMap<&'static str, u64>,
	digest_by_run: BTreeMap<u64, u64>,
	samples: Vec<Value>,
	nontrivial_scenarios: u64,
}

pub fn generate<P: Prop>(p: &P, seed: u64, tier: Tier, run: u64) -> P::Scn {
	let mut rng = Rng::for_run(seed, p.id(), run);
	p.gen(&mut rng, tier, run)
}

pub fn minimise<P: Prop>(p: &P, scn: P::Scn, kind: &str) -> (P::Scn, u64) {
	let mut cur = scn;
	let mut budget: i64 = 2000;
	let mut steps = 0u64;
	// (wall clock, outside the simulated system: it only bounds how far a LONG failing history is shrunk — every
	// candidate of such a scenario costs a long run — never whether it is reported; the file written replays either way)
	let t0 = std::time::Instant::now();
	'outer: loop {
		for cand in p.shrink(&cur) {
			budget -= 1;
			if budget <= 0 || t0.elapsed().as_secs() > 90 {
				break 'outer;
			}
			let o = exec_caught(p, &cand);
			if o.violation.as_ref().map(|v| v.kind.as_str()) == Some(kind) {
				cur = cand;
				steps += 1;
				continue 'outer;
			}
		}
		break;
	}
	(cur, steps)
}

/// Main entry: run a tier of a property. Returns the process exit code.
/// Supervisor: the check proper runs in a child process whose worker threads publish the run index they are
/// executing in a slot file; if the child is killed (abort on an absurd allocation, stack overflow, segfault),
/// the in-flight scenarios are regenerated from (seed, run) and replayed one by one in further children to find
/// the killer, which is reported as a violation with its replay file.
pub fn run_check<P: Prop>(p: &P, tier: Tier) -> i32 {
	if p.isolated() || std::env::var("AVROSIM_INNER").is_ok() {
		return run_check_inner(p, tier);
	}
	let seed = seed_from_env();
	let slots_path = std::env::temp_dir().join(format!("avrosim-slots-{}-{}", p.id(), std::process::id()));
	let _ = std::fs::write(&slots_path, vec![0u8; 8 * 64]);
	let status = std::process::Command::new(self_exe())
		.args(["check", p.id(), tier.name()])
		.env("AVROSIM_INNER", "1")
		.env("AVROSIM_SLOTS", &slots_path)
		.status();
	let code = match status {
		Ok(st) => match st.code() {
			Some(c @ (0 | 1 | 2)) => c,
			other => {
				// the child died: which scenarios were in flight?
				let cause = signal_of(&st).map_or_else(|| format!("exit{other:?}"), |s| format!("signal{s}"));
				let bytes = std::fs::read(&slots_path).unwrap_or_default();
				let mut runs: Vec<u64> = bytes.chunks_exact(8).map(|c| u64::from_le_bytes(c.try_into().unwrap())).filter(|r| *r != 0).map(|r| r - 1).collect();
				runs.sort();
				runs.dedup();
				eprintln!("check process for {} died ({cause}); scenarios in flight: {runs:?}", p.id());
				let replay_dir = verif_root().join("replays");
				let _ = std::fs::create_dir_all(&replay_dir);
				let mut code = 2;
				for run in runs {
					let scn = generate(p, seed, tier, run);
					let path = replay_dir.join(format!("{}-{}-{}{}.json", p.id(), seed, run, lane().map_or(String::new(), |l| format!("-{l}"))));
					let rf = ReplayFile {
						lane: lane(),
						property: p.id().to_string(),
						seed,
						run,
						expect_kind: format!("process-killed:{cause}"),
						detail: "the process executing this scenario was killed".into(),
						scenario: scn,
					};
					let _ = std::fs::write(&path, serde_json::to_string_pretty(&rf).unwrap());
					match replay_in_child(p.id(), &path) {
						Ok(Some(k)) if k.starts_with("process-killed") => {
							println!("violation kind={k} run={run} detail=executing this scenario kills the process (abort / stack overflow / crash); confirmed in a fresh process");
							println!("VIOLATION property={} replay={}", p.id(), path.display());
							code = 1;
							break;
						}
						_ => {
							let _ = std::fs::remove_file(&path);
						}
					}
				}
				if code == 2 {
					eprintln!("HARNESS-ERROR: check process died ({cause}) and no in-flight scenario reproduces it");
				}
				code
			}
		},
		Err(e) => {
			eprintln!("HARNESS-ERROR: cannot spawn the check process: {e}");
			2
		}
	};
	let _ = std::fs::remove_file(&slots_path);
	code
}

fn publish_slot(file: &Option<std::fs::File>, worker: usize, run_plus_one: u64) {
	use std::os::unix::fs::FileExt;
	if let Some(f) = file {
		if worker < 64 {
			let _ = f.write_at(&run_plus_one.to_le_bytes(), 8 * worker as u64);
		}
	}
}

fn run_check_inner<P: Prop>(p: &P, tier: Tier) -> i32 {
	let seed = seed_from_env();
	let workers = workers_from_env();
	let slot_file: Option<std::fs::File> = std::env::var("AVROSIM_SLOTS").ok().and_then(|p| std::fs::OpenOptions::new().write(true).open(p).ok());
	let slot_file = &slot_file;
	let (runs, wall_cap) = p.budget(tier);
	// the second lane explores other scenarios (another stream derived from the same VERIF_SEED) at a quarter of the budget
	let (runs, wall_cap) = if lane().is_some() { ((runs / 4).max(1), (wall_cap / 2).max(30)) } else { (runs, wall_cap) };
	let runs = std::env::var("VERIF_RUNS").ok().and_then(|s| s.parse().ok()).unwrap_or(runs);
	let t0 = Instant::now();
	println!(
		"[{}] tier={} seed={} runs={} workers={} wall_cap={}s",
		p.id(),
		tier.name(),
		seed,
		runs,
		workers,
		wall_cap
	);

	let next = AtomicU64::new(0);
	let stop = AtomicBool::new(false);
	let found: Mutex<Vec<Found<P::Scn>>> = Mutex::new(vec![]);
	let acc: Mutex<Acc> = Mutex::new(Acc::default());
	let nondeterministic: Mutex<Vec<u64>> = Mutex::new(vec![]);
	let double_runs = AtomicU64::new(0);
	let double_runs = &double_runs;

	if p.isolated() {
		run_isolated(p, tier, seed, runs, wall_cap, workers, &acc, &found);
	} else {
		// hang detector (wall clock, outside the simulated system): a scenario that runs for more than
		// HANG_SECS is written out as a replay file, confirmed in a child process and reported
		let slots: Vec<(AtomicU64, AtomicU64)> = (0..workers).map(|_| (AtomicU64::new(0), AtomicU64::new(0))).collect();
		let all_done = AtomicBool::new(false);
		let live = AtomicU64::new(workers as u64);
		std::thread::scope(|s| {
			s.spawn(|| {
				while !all_done.load(Ordering::Relaxed) {
					std::thread::sleep(std::time::Duration::from_millis(250));
					let now = t0.elapsed().as_millis() as u64;
					for (run_plus_one, started) in &slots {
						let r = run_plus_one.load(Ordering::Relaxed);
						if r != 0 && now.saturating_sub(started.load(Ordering::Relaxed)) > HANG_SECS * 1000 {
							report_hang(p, seed, tier, r - 1);
						}
					}
				}
			});
			let slots = &slots;
			let live = &live;
			let all_done = &all_done;
			let (next, stop, found, acc, nondeterministic, t0) = (&next, &stop, &found, &acc, &nondeterministic, &t0);
			for w in 0..workers {
				s.spawn(move || {
					let mut local = Acc::default();
					let slot = &slots[w];
					loop {
						if stop.load(Ordering::Relaxed) {
							break;
						}
						let run = next.fetch_add(1, Ordering::Relaxed);
						if run >= runs {
							break;
						}
						if t0.elapsed().as_secs() >= wall_cap {
							stop.store(true, Ordering::Relaxed);
							break;
						}
						let scn = generate(p, seed, tier, run);
						slot.1.store(t0.elapsed().as_millis() as u64, Ordering::Relaxed);
						slot.0.store(run + 1, Ordering::Relaxed);
						publish_slot(slot_file, w, run + 1);
						let o = exec_caught(p, &scn);
						slot.0.store(0, Ordering::Relaxed);
						// in-process determinism sample: every 50th run is executed twice
						if run % 50 == 0 {
							double_runs.fetch_add(1, Ordering::Relaxed);
							let o2 = exec_caught(p, &scn);
							if o2.full_digest() != o.full_digest() {
								nondeterministic.lock().unwrap().push(run);
							}
						}
						absorb(&mut local, run, &scn, &o);
						if let Some(v) = o.violation {
							let mut f = found.lock().unwrap();
							f.push(Found { run, scn, violation: v });
							if f.len() >= 64 {
								stop.store(true, Ordering::Relaxed);
							}
						}
					}
					merge(&mut acc.lock().unwrap(), local);
					if live.fetch_sub(1, Ordering::SeqCst) == 1 {
						all_done.store(true, Ordering::SeqCst);
					}
				});
			}
		});
	}

	let mut acc = acc.into_inner().unwrap();
	let mut found = found.into_inner().unwrap();
	found.sort_by_key(|f| f.run);
	if ISOLATED_NONDET.load(Ordering::Relaxed) {
		return 2;
	}
	double_runs.fetch_add(ISOLATED_DOUBLE_RUNS.load(Ordering::Relaxed), Ordering::Relaxed);
	let nondet = nondeterministic.into_inner().unwrap();
	if !nondet.is_empty() {
		eprintln!("HARNESS-ERROR: non-deterministic executions for runs {nondet:?} (same scenario, different event digest)");
		return 2;
	}

	// cross-process determinism sample (different worker count, fresh process)
	let mut cross_checked = 0u64;
	if !p.isolated() && std::env::var("VERIF_NO_CROSSCHECK").is_err() {
		let sample = acc.digest_by_run.len().min(if tier == Tier::Quick { 300 } else { 3000 }) as u64;
		if sample > 0 {
			match cross_process_digests(p.id(), tier, seed, sample) {
				Ok(map) => {
					for (run, d) in map {
						if let Some(mine) = acc.digest_by_run.get(&run) {
							cross_checked += 1;
							if *mine != d {
								eprintln!("HARNESS-ERROR: run {run} has digest {mine:x} here and {d:x} in a fresh process");
								return 2;
							}
						}
					}
				}
				Err(e) => {
					eprintln!("HARNESS-ERROR: cross-process determinism check failed to run: {e}");
					return 2;
				}
			}
		}
	}

	// replay corpus (regression scenarios of fixed findings and seeded changes): must all pass
	let mut corpus_run = 0u64;
	let corpus_dir = verif_root().join("replays").join("corpus").join(p.id());
	if let Ok(rd) = std::fs::read_dir(&corpus_dir) {
		let mut files: Vec<PathBuf> = rd.filter_map(|e| e.ok()).map(|e| e.path()).filter(|p| p.extension().map_or(false, |e| e == "json")).collect();
		files.sort();
		for f in files {
			match std::fs::read_to_string(&f).ok().and_then(|t| parse_deep::<ReplayFile<P::Scn>>(&t).ok()) {
				Some(rf) => {
					corpus_run += 1;
					let o = exec_caught(p, &rf.scenario);
					absorb(&mut acc, u64::MAX - corpus_run, &rf.scenario, &o);
					if let Some(v) = o.violation {
						found.push(Found { run: u64::MAX - corpus_run, scn: rf.scenario, violation: v });
					}
				}
				None => {
					eprintln!("HARNESS-ERROR: cannot read corpus file {}", f.display());
					return 2;
				}
			}
		}
	}

	// classify, minimise, write replay files, confirm in a fresh process
	let known = load_known_findings();
	let mut reported: Vec<Value> = vec![];
	let mut known_hits: BTreeMap<String, u64> = BTreeMap::new();
	let mut seen_kinds: BTreeSet<String> = BTreeSet::new();
	let mut exit = 0;
	let replay_dir = verif_root().join("replays");
	let _ = std::fs::create_dir_all(&replay_dir);
	for f in &found {
		if let Some(k) = known
			.iter()
			.find(|k| k.property == p.id() && k.status == "open" && f.violation.kind.starts_with(&k.kind_prefix))
		{
			*known_hits.entry(k.what.clone()).or_default() += 1;
			continue;
		}
		if !seen_kinds.insert(f.violation.kind.clone()) || seen_kinds.len() > 6 {
			continue;
		}
		if f.violation.kind.starts_with("harness") {
			eprintln!("HARNESS-ERROR: {} — {}", f.violation.kind, f.violation.detail);
			exit = 2;
			continue;
		}
		let killer = f.violation.kind.starts_with("process-killed");
		// a scenario that kills the process cannot be minimised in-process
		let (min, shrink_steps) = if killer { (f.scn.clone(), 0) } else { minimise(p, f.scn.clone(), &f.violation.kind) };
		let detail = if killer {
			f.violation.detail.clone()
		} else {
			exec_caught(p, &min).violation.as_ref().map(|v| v.detail.clone()).unwrap_or_default()
		};
		let run_label = if f.run > u64::MAX / 2 { format!("corpus{}", u64::MAX - f.run) } else { f.run.to_string() };
		let path = replay_dir.join(format!("{}-{}-{}{}.json", p.id(), seed, run_label, lane().map_or(String::new(), |l| format!("-{l}"))));
		let rf = ReplayFile {
						lane: lane(),
			property: p.id().to_string(),
			seed,
			run: f.run,
			expect_kind: f.violation.kind.clone(),
			detail: detail.clone(),
			scenario: min,
		};
		std::fs::write(&path, serde_json::to_string_pretty(&rf).unwrap()).unwrap();
		// fresh-process confirmation
		match replay_in_child(p.id(), &path) {
			Ok(Some(kind)) if kind == f.violation.kind || (killer && kind.starts_with("process-killed")) => {
				println!("violation kind={} run={} shrink_steps={} detail={}", f.violation.kind, run_label, shrink_steps, detail);
				println!("VIOLATION property={} replay={}", p.id(), path.display());
				reported.push(json!({"kind": f.violation.kind, "run": run_label, "replay": path.display().to_string(), "detail": detail}));
				if exit == 0 {
					exit = 1;
				}
			}
			other => {
				eprintln!(
					"HARNESS-ERROR: violation {} of run {} does not replay in a fresh process (got {:?}); file {}",
					f.violation.kind,
					run_label,
					other,
					path.display()
				);
				exit = 2;
			}
		}
	}
	for (what, n) in &known_hits {
		println!("KNOWN-FINDING: property={} {} (observed {} times in this run)", p.id(), what, n);
	}

	let wall = t0.elapsed().as_secs_f64();
	// evidence
	let counters: serde_json::Map<String, Value> = acc.counters.iter().map(|(k, v)| (k.to_string(), json!(v))).collect();
	let zero_probes: Vec<&str> = p.expected_probes().into_iter().filter(|n| !acc.counters.contains_key(n)).collect();
	if !zero_probes.is_empty() {
		println!("[{}] note: reach probes at zero in this run: {:?}", p.id(), zero_probes);
	}
	let evidence = json!({
		"property_id": p.id(),
		"tier": tier.name(),
		"seed": seed,
		"level": p.level(),
		"wall_s": wall,
		"violations": reported.len(),
		"coverage": {
			"evaluations": acc.evaluations.max(1),
			"distinct_nontrivial": acc.sigs.len(),
			"rule": p.rule(),
			"samples": acc.samples,
			"scenarios": acc.scenarios,
			"nontrivial_scenarios": acc.nontrivial_scenarios,
			"simulated_io_steps": acc.steps,
			"simulated_time_note": "the code under test has no clock or timer; 'time' is counted in simulated I/O steps (sink/source calls)",
			"runs_per_hour": if wall > 0.0 { (acc.scenarios as f64 / wall * 3600.0) as u64 } else { 0 },
			"evaluations_per_hour": if wall > 0.0 { (acc.evaluations as f64 / wall * 3600.0) as u64 } else { 0 },
			"faults_fired_and_probes": counters,
			"probes_at_zero": zero_probes,
			"components": p.components(),
			"determinism": {
				"in_process_double_runs": double_runs.load(Ordering::Relaxed),
				"note": if p.isolated() { "scenarios run in worker processes; every 200th scenario of each worker is executed twice and the event digests compared" } else { "every 50th scenario executed twice in-process; the first runs re-executed in a fresh process with another worker count" },
				"cross_process_runs_compared": cross_checked,
				"mismatches": 0
			},
			"replay_corpus_scenarios": corpus_run,
			"known_findings_observed": known_hits,
			"violations_reported": reported,
			"workers": workers,
			"runs_requested": runs,
			"exhaustive": false
		},
		"assumptions": p.assumptions(),
	});
	let ev_dir = verif_root().join("evidence");
	let _ = std::fs::create_dir_all(&ev_dir);
	let ev_path = ev_dir.join(format!("{}.json", p.id()));
	// the second lane adds its summary to the evidence the main lane has just written
	let evidence = match lane() {
		None => evidence,
		Some(l) => {
			let mut main: Value = std::fs::read_to_string(&ev_path).ok().and_then(|t| parse_deep(&t).ok()).unwrap_or_else(|| json!({"property_id": p.id(), "tier": tier.name(), "seed": seed, "level": p.level(), "wall_s": 0.0, "violations": 0, "coverage": {"evaluations": 1, "distinct_nontrivial": 0, "rule": p.rule(), "exhaustive": false}, "assumptions": p.assumptions()}));
			let cov = &evidence["coverage"];
			main["coverage"]["second_lane"] = json!({
				"lane": l,
				"what": "the same check, harness and crate built the way the crate ships (no debug assertions, wrapping arithmetic), on another scenario stream derived from the same seed, at a quarter of the budget",
				"scenarios": cov["scenarios"], "evaluations": cov["evaluations"], "distinct_nontrivial": cov["distinct_nontrivial"],
				"simulated_io_steps": cov["simulated_io_steps"], "wall_s": wall, "violations_reported": cov["violations_reported"],
			});
			let v = main["violations"].as_u64().unwrap_or(0) + reported.len() as u64;
			main["violations"] = json!(v);
			main
		}
	};
	if let Err(e) = std::fs::write(&ev_path, serde_json::to_string_pretty(&evidence).unwrap()) {
		eprintln!("HARNESS-ERROR: cannot write evidence: {e}");
		return 2;
	}
	println!(
		"[{}] scenarios={} evaluations={} distinct_nontrivial={} steps={} wall={:.1}s exit={}",
		p.id(),
		acc.scenarios,
		acc.evaluations,
		acc.sigs.len(),
		acc.steps,
		wall,
		exit
	);
	exit
}

fn absorb<S: Serialize>(acc: &mut Acc, run: u64, scn: &S, o: &Outcome) {
	acc.scenarios += 1;
	acc.evaluations += o.evals.max(1);
	acc.steps += o.steps;
	if !o.sigs.is_empty() {
		acc.nontrivial_scenarios += 1;
	}
	for s in &o.sigs {
		acc.sigs.insert(*s);
	}
	for (k, n) in &o.counters {
		*acc.counters.entry(k).or_default() += n;
	}
	acc.digest_by_run.insert(run, o.full_digest());
	if acc.samples.len() < 2 && !o.sigs.is_empty() && run % 7 == 0 {
		let mut v = serde_json::to_value(scn).unwrap_or(Value::Null);
		truncate_json(&mut v, 0);
		acc.samples.push(json!({"run": run, "scenario": v, "evaluations": o.evals, "counters": o.counters.iter().map(|(k,n)| format!("{k}={n}")).collect::<Vec<_>>()}));
	}
}

fn merge(into: &mut Acc, from: Acc) {
	into.scenarios += from.scenarios;
	into.evaluations += from.evaluations;
	into.steps += from.steps;
	into.nontrivial_scenarios += from.nontrivial_scenarios;
	into.sigs.extend(from.sigs);
	for (k, n) in from.counters {
		*into.counters.entry(k).or_default() += n;
	}
	into.digest_by_run.extend(from.digest_by_run);
	for s in from.samples {
		if into.samples.len() < 3 {
			into.samples.push(s);
		}
	}
}

/// keep evidence samples readable: cut long arrays / strings
fn truncate_json(v: &mut Value, depth: usize) {
	match v {
		Value::Array(a) => {
			if a.len() > 24 && a.iter().all(|x| x.is_number()) {
				let n = a.len();
				a.truncate(16);
				a.push(json!(format!("… {} more numbers", n - 16)));
			} else if a.len() > 12 {
				let n = a.len();
				a.truncate(8);
				a.push(json!(format!("… {} more items", n - 8)));
			}
			for x in a.iter_mut() {
				truncate_json(x, depth + 1);
			}
		}
		Value::Object(o) => {
			for (_, x) in o.iter_mut() {
				truncate_json(x, depth + 1);
			}
		}
		Value::String(s) => {
			if s.len() > 200 {
				let mut cut = 200;
				while !s.is_char_boundary(cut) {
					cut -= 1;
				}
				s.truncate(cut);
				s.push('…');
			}
		}
		_ => {}
	}
}

// ---------------------------------------------------------------------------------------------
// child processes

fn self_exe() -> PathBuf {
	std::env::current_exe().expect("current_exe")
}

fn cross_process_digests(id: &str, tier: Tier, seed: u64, count: u64) -> Result<Vec<(u64, u64)>, String> {
	let out = std::process::Command::new(self_exe())
		.args(["digest", id, tier.name(), &count.to_string()])
		.env("VERIF_SEED", seed.to_string())
			.env("VERIF_SEED_IS_DERIVED", "1")
		.env("VERIF_WORKERS", "3")
		.output()
		.map_err(|e| e.to_string())?;
	if !out.status.success() {
		return Err(format!("digest child exited with {:?}: {}", out.status, String::from_utf8_lossy(&out.stderr)));
	}
	let mut v = vec![];
	for line in String::from_utf8_lossy(&out.stdout).lines() {
		if let Some((a, b)) = line.split_once(' ') {
			if let (Ok(run), Ok(d)) = (a.parse::<u64>(), u64::from_str_radix(b, 16)) {
				v.push((run, d));
			}
		}
	}
	Ok(v)
}

/// `avrosim digest <id> <tier> <count>`: prints "<run> <digest-hex>" for runs 0..count
pub fn run_digest<P: Prop>(p: &P, tier: Tier, count: u64) -> i32 {
	let seed = seed_from_env();
	let workers = workers_from_env();
	let next = AtomicU64::new(0);
	let out: Mutex<BTreeMap<u64, u64>> = Mutex::new(BTreeMap::new());
	std::thread::scope(|s| {
		for _ in 0..workers {
			s.spawn(|| loop {
				let run = next.fetch_add(1, Ordering::Relaxed);
				if run >= count {
					break;
				}
				let scn = generate(p, seed, tier, run);
				let o = exec_caught(p, &scn);
				out.lock().unwrap().insert(run, o.full_digest());
			});
		}
	});
	for (run, d) in out.into_inner().unwrap() {
		println!("{run} {d:x}");
	}
	0
}

fn replay_in_child(id: &str, path: &Path) -> Result<Option<String>, String> {
	let mut child = std::process::Command::new(self_exe())
		.args(["replay", id, &path.display().to_string()])
		.stdout(std::process::Stdio::piped())
		.stderr(std::process::Stdio::piped())
		.spawn()
		.map_err(|e| e.to_string())?;
	// the child's output is drained while it runs (a detail longer than the pipe's buffer would block it for ever)
	let drain = |r: Option<Box<dyn std::io::Read + Send>>| {
		std::thread::spawn(move || {
			let mut buf = vec![];
			if let Some(mut r) = r {
				let _ = std::io::Read::read_to_end(&mut r, &mut buf);
			}
			buf
		})
	};
	let t_out = drain(child.stdout.take().map(|s| Box::new(s) as Box<dyn std::io::Read + Send>));
	let t_err = drain(child.stderr.take().map(|s| Box::new(s) as Box<dyn std::io::Read + Send>));
	// hang detector for the confirmation run (wall clock, outside the simulated system)
	let t0 = Instant::now();
	let status;
	loop {
		match child.try_wait() {
			Ok(Some(st)) => {
				status = st;
				break;
			}
			Ok(None) => {
				if t0.elapsed().as_secs() > CONFIRM_SECS {
					let _ = child.kill();
					let _ = child.wait();
					return Ok(Some("process-killed:hang".into()));
				}
				std::thread::sleep(std::time::Duration::from_millis(20));
			}
			Err(e) => return Err(e.to_string()),
		}
	}
	struct Out {
		status: std::process::ExitStatus,
		stdout: Vec<u8>,
		stderr: Vec<u8>,
	}
	let out = Out { status, stdout: t_out.join().unwrap_or_default(), stderr: t_err.join().unwrap_or_default() };
	let stdout = String::from_utf8_lossy(&out.stdout);
	for line in stdout.lines() {
		if let Some(k) = line.strip_prefix("REPLAY-VIOLATION kind=") {
			return Ok(Some(k.split(" detail=").next().unwrap_or(k).to_string()));
		}
	}
	if out.status.code() == Some(0) {
		Ok(None)
	} else if let Some(sig) = signal_of(&out.status) {
		Ok(Some(format!("process-killed:signal{sig}")))
	} else {
		Err(format!("replay child exit {:?}: {}", out.status, String::from_utf8_lossy(&out.stderr)))
	}
}

#[cfg(unix)]
fn signal_of(st: &std::process::ExitStatus) -> Option<i32> {
	use std::os::unix::process::ExitStatusExt;
	st.signal()
}

/// `avrosim replay <id> <path>`
pub fn run_replay<P: Prop>(p: &P, path: &str) -> i32 {
	let text = match std::fs::read_to_string(path) {
		Ok(t) => t,
		Err(e) => {
			eprintln!("HARNESS-ERROR: cannot read {path}: {e}");
			return 2;
		}
	};
	let rf: ReplayFile<P::Scn> = match parse_deep(&text) {
		Ok(r) => r,
		Err(e) => {
			eprintln!("HARNESS-ERROR: cannot parse {path}: {e}");
			return 2;
		}
	};
	if p.isolated() {
		crate::simalloc::set_hard_cap(ISOLATED_ALLOC_CAP);
	}
	let o = exec_caught(p, &rf.scenario);
	match o.violation {
		Some(v) => {
			println!("REPLAY-VIOLATION kind={} detail={}", v.kind, v.detail);
			println!("VIOLATION property={} replay={}", p.id(), path);
			1
		}
		None => {
			println!("replay of {path}: property held (evaluations={}, steps={})", o.evals, o.steps);
			0
		}
	}
}

pub const ISOLATED_ALLOC_CAP: usize = 256 << 20;
static ISOLATED_DOUBLE_RUNS: AtomicU64 = AtomicU64::new(0);
static ISOLATED_NONDET: AtomicBool = AtomicBool::new(false);

/// Worker-process mode (C04): `avrosim worker <id> <tier> <start> <stride> <runs> <inflight-path>`
pub fn run_worker<P: Prop>(p: &P, tier: Tier, start: u64, stride: u64, runs: u64, inflight: &str) -> i32 {
	let seed = seed_from_env();
	crate::simalloc::set_hard_cap(ISOLATED_ALLOC_CAP);
	// watchdog: the one wall-clock reading in the harness, outside the simulated system
	static PROGRESS: AtomicU64 = AtomicU64::new(0);
	let inflight_path = inflight.to_string();
	std::thread::spawn(move || {
		let mut last = u64::MAX;
		let mut since = Instant::now();
		loop {
			std::thread::sleep(std::time::Duration::from_millis(500));
			let cur = PROGRESS.load(Ordering::Relaxed);
			if cur != last {
				last = cur;
				since = Instant::now();
			} else if since.elapsed().as_secs() >= 60 {
				eprintln!("WORKER-HANG inflight={inflight_path}");
				std::process::exit(3);
			}
		}
	});
	let wall_cap: u64 = std::env::var("VERIF_WORKER_WALL").ok().and_then(|s| s.parse().ok()).unwrap_or(u64::MAX);
	let t0 = Instant::now();
	let mut acc = Acc::default();
	let mut found: Vec<Value> = vec![];
	let mut double_runs = 0u64;
	let mut nondet: Vec<u64> = vec![];
	let mut run = start;
	while run < runs {
		if t0.elapsed().as_secs() >= wall_cap {
			break;
		}
		let scn = generate(p, seed, tier, run);
		let text = serde_json::to_string(&json!({"run": run, "scenario": &scn})).unwrap();
		let _ = std::fs::write(inflight, text);
		PROGRESS.fetch_add(1, Ordering::Relaxed);
		let o = exec_caught(p, &scn);
		if (run / stride) % 200 == 0 {
			double_runs += 1;
			let o2 = exec_caught(p, &scn);
			if o2.full_digest() != o.full_digest() {
				nondet.push(run);
			}
		}
		absorb(&mut acc, run, &scn, &o);
		if let Some(v) = &o.violation {
			if found.len() < 16 {
				found.push(json!({"run": run, "kind": v.kind, "detail": v.detail, "scenario": &scn}));
			}
		}
		run += stride;
	}
	let _ = std::fs::remove_file(inflight);
	let counters: BTreeMap<String, u64> = acc.counters.iter().map(|(k, v)| (k.to_string(), *v)).collect();
	let summary = json!({
		"scenarios": acc.scenarios,
		"evaluations": acc.evaluations,
		"steps": acc.steps,
		"nontrivial_scenarios": acc.nontrivial_scenarios,
		"sigs": acc.sigs.iter().collect::<Vec<_>>(),
		"counters": counters,
		"samples": acc.samples,
		"found": found,
		"double_runs": double_runs,
		"nondeterministic": nondet,
	});
	println!("WORKER-SUMMARY {}", serde_json::to_string(&summary).unwrap());
	0
}

fn leak_str(s: &str) -> &'static str {
	// counter names coming back from worker processes; a handful of distinct names per run
	static INTERN: Mutex<BTreeMap<String, &'static str>> = Mutex::new(BTreeMap::new());
	let mut m = INTERN.lock().unwrap();
	if let Some(v) = m.get(s) {
		return v;
	}
	let l: &'static str = Box::leak(s.to_string().into_boxed_str());
	m.insert(s.to_string(), l);
	l
}

#[allow(clippy::too_many_arguments)]
fn run_isolated<P: Prop>(
	p: &P,
	tier: Tier,
	seed: u64,
	runs: u64,
	wall_cap: u64,
	workers: usize,
	acc: &Mutex<Acc>,
	found: &Mutex<Vec<Found<P::Scn>>>,
) {
	let tmp = std::env::temp_dir().join(format!("avrosim-{}-{}", p.id(), std::process::id()));
	let _ = std::fs::create_dir_all(&tmp);
	let mut children = vec![];
	for w in 0..workers as u64 {
		let inflight = tmp.join(format!("w{w}.inflight"));
		let child = std::process::Command::new(self_exe())
			.args([
				"worker",
				p.id(),
				tier.name(),
				&w.to_string(),
				&workers.to_string(),
				&runs.to_string(),
				&inflight.display().to_string(),
			])
			.env("VERIF_SEED", seed.to_string())
			.env("VERIF_SEED_IS_DERIVED", "1")
			.env("VERIF_WORKER_WALL", wall_cap.to_string())
			.stdout(std::process::Stdio::piped())
			.stderr(std::process::Stdio::piped())
			.spawn()
			.expect("spawn worker");
		children.push((w, inflight, child));
	}
	for (w, inflight, child) in children {
		let out = child.wait_with_output().expect("wait worker");
		let stdout = String::from_utf8_lossy(&out.stdout).to_string();
		let stderr = String::from_utf8_lossy(&out.stderr).to_string();
		let mut got_summary = false;
		for line in stdout.lines() {
			if let Some(js) = line.strip_prefix("WORKER-SUMMARY ") {
				if let Ok(v) = parse_deep::<Value>(js) {
					got_summary = true;
					let mut a = acc.lock().unwrap();
					a.scenarios += v["scenarios"].as_u64().unwrap_or(0);
					ISOLATED_DOUBLE_RUNS.fetch_add(v["double_runs"].as_u64().unwrap_or(0), Ordering::Relaxed);
					if v["nondeterministic"].as_array().map_or(false, |x| !x.is_empty()) {
						eprintln!("HARNESS-ERROR: worker {w} saw non-deterministic executions for runs {}", v["nondeterministic"]);
						ISOLATED_NONDET.store(true, Ordering::Relaxed);
					}
					a.evaluations += v["evaluations"].as_u64().unwrap_or(0);
					a.steps += v["steps"].as_u64().unwrap_or(0);
					a.nontrivial_scenarios += v["nontrivial_scenarios"].as_u64().unwrap_or(0);
					for s in v["sigs"].as_array().cloned().unwrap_or_default() {
						if let Some(s) = s.as_u64() {
							a.sigs.insert(s);
						}
					}
					if let Some(c) = v["counters"].as_object() {
						for (k, n) in c {
							*a.counters.entry(leak_str(k)).or_default() += n.as_u64().unwrap_or(0);
						}
					}
					for s in v["samples"].as_array().cloned().unwrap_or_default() {
						if a.samples.len() < 3 {
							a.samples.push(s);
						}
					}
					for f in v["found"].as_array().cloned().unwrap_or_default() {
						if let Ok(scn) = serde_json::from_value::<P::Scn>(f["scenario"].clone()) {
							found.lock().unwrap().push(Found {
								run: f["run"].as_u64().unwrap_or(0),
								scn,
								violation: Violation::new(f["kind"].as_str().unwrap_or("?"), f["detail"].as_str().unwrap_or("")),
							});
						}
					}
				}
			}
		}
		if !got_summary {
			// the worker died: attribute it to the in-flight scenario
			let cause = if stderr.contains("SIMALLOC-CAP-EXCEEDED") {
				"process-killed:alloc-cap".to_string()
			} else if stderr.contains("WORKER-HANG") {
				"process-killed:hang".to_string()
			} else if stderr.contains("stack overflow") || stderr.contains("has overflowed its stack") {
				"process-killed:stack-overflow".to_string()
			} else if let Some(sig) = signal_of(&out.status) {
				format!("process-killed:signal{sig}")
			} else {
				format!("process-killed:exit{:?}", out.status.code())
			};
			match std::fs::read_to_string(&inflight).ok().and_then(|t| parse_deep::<Value>(&t).ok()) {
				Some(v) => {
					if let Ok(scn) = serde_json::from_value::<P::Scn>(v["scenario"].clone()) {
						found.lock().unwrap().push(Found {
							run: v["run"].as_u64().unwrap_or(0),
							scn,
							violation: Violation::new(cause, format!("worker {w} died; stderr tail: {}", tail(&stderr, 300))),
						});
					}
				}
				None => {
					eprintln!("HARNESS-ERROR: worker {w} died without summary and without in-flight file: {}", tail(&stderr, 500));
					found.lock().unwrap().push(Found {
						run: 0,
						scn: generate(p, seed, tier, 0),
						violation: Violation::new("harness-worker-died", tail(&stderr, 300)),
					});
				}
			}
		}
	}
	let _ = std::fs::remove_dir_all(&tmp);
}

fn tail(s: &str, n: usize) -> String {
	let start = s.len().saturating_sub(n);
	let mut i = start;
	while !s.is_char_boundary(i) {
		i += 1;
	}
	s[i..].replace('\n', " | ")
}

fn report_hang<P: Prop>(p: &P, seed: u64, tier: Tier, run: u64) -> ! {
	let scn = generate(p, seed, tier, run);
	let replay_dir = verif_root().join("replays");
	let _ = std::fs::create_dir_all(&replay_dir);
	let path = replay_dir.join(format!("{}-{}-{}{}.json", p.id(), seed, run, lane().map_or(String::new(), |l| format!("-{l}"))));
	let kind = "process-killed:hang".to_string();
	let rf = ReplayFile {
						lane: lane(),
		property: p.id().to_string(),
		seed,
		run,
		expect_kind: kind.clone(),
		detail: format!("scenario still running after {HANG_SECS} s"),
		scenario: scn,
	};
	let _ = std::fs::write(&path, serde_json::to_string_pretty(&rf).unwrap());
	match replay_in_child(p.id(), &path) {
		Ok(Some(k)) if k.starts_with("process-killed") => {
			println!("violation kind={kind} run={run} detail=scenario does not terminate (confirmed in a fresh process)");
			println!("VIOLATION property={} replay={}", p.id(), path.display());
			std::process::exit(1);
		}
		other => {
			eprintln!("HARNESS-ERROR: run {run} exceeded {HANG_SECS} s here but replays as {other:?}; file {}", path.display());
			std::process::exit(2);
		}
	}
}


/// `serde_json::from_str` without its nesting limit of 128: scenarios with deliberately deep values nest deeper
pub fn parse_deep<T: serde::de::DeserializeOwned>(text: &str) -> Result<T, serde_json::Error> {
	let mut de = serde_json::Deserializer::from_str(text);
	de.disable_recursion_limit();
	let v = T::deserialize(&mut de)?;
	de.end()?;
	Ok(v)
}
