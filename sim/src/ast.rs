//! The simulator's own schema AST, its JSON rendering and a generator.
//!
//! Every name comes from a static pool because serde's `Serializer` API wants `&'static str`
//! for struct / variant / field names, while schemas here are generated at run time.

use crate::prng::Rng;
use serde_derive::{Deserialize, Serialize};

pub const TYPE_NAMES: [&str; 32] = [
	// several short names occur in more than one namespace on purpose (fullnames stay unique): whatever is keyed
	// by a type's name must use the fullname
	"a.N0", "b.N0", "a.N1", "a.b.N1", "c.N2", "a.N2", "a.N3", "z.N3", "a.b.N4", "a.b.N5", "c.N4", "a.N6", "c.d.e.N6",
	"a.N7", "c.N8", "c.N9", "c.N10", "c.N11", "c.N12", "c.N13", "c.N14", "c.d.e.N15", "c.d.e.N16", "c.d.e.N17", "z.N18",
	"z.N19", "z.N20", "z.N21", "z.N22", "z.N29", "z.N30", "z.N31",
];
pub const FIELD_NAMES: [&str; 24] = [
	"f0", "f1", "f2", "f3", "f4", "f5", "f6", "f7", "f8", "f9", "f10", "f11", "f12", "f13", "f14",
	"f15", "f16", "f17", "f18", "f19", "f20", "f21", "f22", "f23",
];
pub const SYMBOLS: [&str; 16] = [
	"S0", "S1", "S2", "S3", "S4", "S5", "S6", "S7", "S8", "S9", "S10", "S11", "S12", "S13", "S14",
	"S15",
];

/// Names beyond the pools, for deliberately WIDE schemas (hundreds of fields / symbols / named types): made once and
/// leaked, so that they are `&'static str` like the pool entries.
pub const WIDE_LIMIT: usize = 640;
fn wide_names(prefix: &'static str, cell: &'static std::sync::OnceLock<Vec<&'static str>>) -> &'static [&'static str] {
	cell.get_or_init(|| (0..WIDE_LIMIT).map(|i| &*Box::leak(format!("{prefix}{i}").into_boxed_str())).collect())
}
static WIDE_TYPES: std::sync::OnceLock<Vec<&'static str>> = std::sync::OnceLock::new();
static WIDE_FIELDS: std::sync::OnceLock<Vec<&'static str>> = std::sync::OnceLock::new();
static WIDE_SYMBOLS: std::sync::OnceLock<Vec<&'static str>> = std::sync::OnceLock::new();

/// Names outside ASCII (the specification's grammar for names is ASCII-only, but the crate — like most implementations —
/// takes what the JSON says): a Thai word with combining marks, decomposed accents, a no-break space, zero-width joiners,
/// Cyrillic. Whatever renders, escapes, compares or fingerprints names meets them at ids `EXOTIC_FIRST..+4`.
pub const EXOTIC_FIRST: usize = 636;
const EXOTIC_FIELDS: [&str; 4] = ["\u{e0a}\u{e37}\u{e48}\u{e2d}", "e\u{301}te\u{301}", "Id\u{a0}2", "na\u{200c}me"];
const EXOTIC_TYPES: [&str; 4] = ["z.Nome\u{301}", "\u{fc}.\u{422}\u{438}\u{43f}", "w.\u{e0a}\u{e37}\u{e48}\u{e2d}", "a.N\u{200d}x"];
pub fn has_exotic_names(ty: &Ty) -> bool {
	match ty {
		Ty::Array(t) | Ty::Map(t) => has_exotic_names(t),
		Ty::Union(ts) => ts.iter().any(has_exotic_names),
		Ty::Record { name, fields } => *name as usize >= EXOTIC_FIRST || fields.iter().any(|(f, t)| *f as usize >= EXOTIC_FIRST || has_exotic_names(t)),
		Ty::Enum { name, .. } | Ty::Fixed { name, .. } | Ty::DecimalFixed { name, .. } | Ty::Duration { name } | Ty::Ref(name) => *name as usize >= EXOTIC_FIRST,
		_ => false,
	}
}

pub fn type_name(i: u16) -> &'static str {
	let i = i as usize;
	if i >= EXOTIC_FIRST && i < EXOTIC_FIRST + 4 {
		return EXOTIC_TYPES[i - EXOTIC_FIRST];
	}
	if i < TYPE_NAMES.len() {
		TYPE_NAMES[i]
	} else {
		wide_names("w.x.W", &WIDE_TYPES)[i % WIDE_LIMIT]
	}
}
pub fn field_name(i: u16) -> &'static str {
	let i = i as usize;
	if i >= EXOTIC_FIRST && i < EXOTIC_FIRST + 4 {
		return EXOTIC_FIELDS[i - EXOTIC_FIRST];
	}
	if i < FIELD_NAMES.len() {
		FIELD_NAMES[i]
	} else {
		wide_names("g", &WIDE_FIELDS)[i % WIDE_LIMIT]
	}
}
pub fn symbol(i: u16) -> &'static str {
	let i = i as usize;
	if i < SYMBOLS.len() {
		SYMBOLS[i]
	} else {
		wide_names("T", &WIDE_SYMBOLS)[i % WIDE_LIMIT]
	}
}

#[derive(Clone, Debug, PartialEq, Eq, Serialize, Deserialize)]
pub enum Ty {
	Null,
	Boolean,
	Int,
	Long,
	Float,
	Double,
	Bytes,
	String,
	Array(Box<Ty>),
	Map(Box<Ty>),
	Union(Vec<Ty>),
	Record { name: u16, fields: Vec<(u16, Ty)> },
	Enum { name: u16, symbols: u16 },
	Fixed { name: u16, size: u32 },
	/// reference by fullname to a named type defined earlier (or enclosing)
	Ref(u16),
	DecimalBytes { scale: u32, precision: u32 },
	DecimalFixed { name: u16, size: u32, scale: u32, precision: u32 },
	BigDecimal,
	Uuid,
	Date,
	TimeMillis,
	TimeMicros,
	TimestampMillis,
	TimestampMicros,
	Duration { name: u16 },
}

/// Resolution environment: defining node for each named type
#[derive(Clone, Debug)]
pub struct Env {
	pub defs: Vec<Option<Ty>>,
}

impl Env {
	pub fn build(root: &Ty) -> Env {
		let mut env = Env {
			defs: vec![None; TYPE_NAMES.len()],
		};
		env.walk(root);
		env
	}
	fn walk(&mut self, ty: &Ty) {
		match ty {
			Ty::Array(t) | Ty::Map(t) => self.walk(t),
			Ty::Union(ts) => ts.iter().for_each(|t| self.walk(t)),
			Ty::Record { name, fields } => {
				self.define(*name, ty);
				fields.iter().for_each(|(_, t)| self.walk(t));
			}
			Ty::Enum { name, .. }
			| Ty::Fixed { name, .. }
			| Ty::DecimalFixed { name, .. }
			| Ty::Duration { name } => {
				self.define(*name, ty);
			}
			_ => {}
		}
	}
	fn define(&mut self, name: u16, ty: &Ty) {
		let i = name as usize;
		if self.defs.len() <= i {
			self.defs.resize(i + 1, None);
		}
		self.defs[i] = Some(ty.clone());
	}
	pub fn resolve<'a>(&'a self, ty: &'a Ty) -> &'a Ty {
		match ty {
			Ty::Ref(n) => self.defs[*n as usize]
				.as_ref()
				.expect("dangling Ref in sim AST"),
			other => other,
		}
	}
}

/// Name under which the crate's deserializer announces a union branch when hinted `enum`
/// (documented contract: PascalCase of the type, or the fullname of a named type)
pub fn branch_type_name(env: &Env, ty: &Ty) -> &'static str {
	match env.resolve(ty) {
		Ty::Null => "Null",
		Ty::Boolean => "Boolean",
		Ty::Int => "Int",
		Ty::Long => "Long",
		Ty::Float => "Float",
		Ty::Double => "Double",
		Ty::Bytes => "Bytes",
		Ty::String => "String",
		Ty::Array(_) => "Array",
		Ty::Map(_) => "Map",
		Ty::Union(_) => "Union",
		Ty::Record { name, .. } | Ty::Enum { name, .. } | Ty::Fixed { name, .. } => type_name(*name),
		Ty::Ref(_) => unreachable!(),
		Ty::DecimalBytes { .. } => "Decimal",
		Ty::DecimalFixed { name, .. } => type_name(*name),
		Ty::BigDecimal => "BigDecimal",
		Ty::Uuid => "Uuid",
		Ty::Date => "Date",
		Ty::TimeMillis => "TimeMillis",
		Ty::TimeMicros => "TimeMicros",
		Ty::TimestampMillis => "TimestampMillis",
		Ty::TimestampMicros => "TimestampMicros",
		Ty::Duration { .. } => "Duration",
	}
}

pub fn to_json(ty: &Ty) -> String {
	let mut s = String::new();
	render(ty, &mut s);
	s
}

fn render(ty: &Ty, out: &mut String) {
	use std::fmt::Write;
	match ty {
		Ty::Null => out.push_str("\"null\""),
		Ty::Boolean => out.push_str("\"boolean\""),
		Ty::Int => out.push_str("\"int\""),
		Ty::Long => out.push_str("\"long\""),
		Ty::Float => out.push_str("\"float\""),
		Ty::Double => out.push_str("\"double\""),
		Ty::Bytes => out.push_str("\"bytes\""),
		Ty::String => out.push_str("\"string\""),
		Ty::Array(t) => {
			out.push_str("{\"type\":\"array\",\"items\":");
			render(t, out);
			out.push('}');
		}
		Ty::Map(t) => {
			out.push_str("{\"type\":\"map\",\"values\":");
			render(t, out);
			out.push('}');
		}
		Ty::Union(ts) => {
			out.push('[');
			for (i, t) in ts.iter().enumerate() {
				if i > 0 {
					out.push(',');
				}
				render(t, out);
			}
			out.push(']');
		}
		Ty::Record { name, fields } => {
			// every other record carries attributes the crate has no use for but must preserve in the text it
			// embeds in file headers: non-ASCII, escapes, a nested object
			if name % 4 == 1 {
				write!(out, "{{\"type\":\"record\",\"doc\":\"d\u{e9}j\u{e0} \\\"vu\\\" \\\\ \\u20ac \\n\",\"x-meta\":{{\"k\":[1,null,\"\u{1F600}\"]}},\"name\":\"{}\",\"fields\":[", type_name(*name)).unwrap();
			} else if name % 4 == 3 {
				// a string that ENDS in an escaped backslash, an escaped quote right after a backslash, strings with
				// runs of spaces after it, numbers in other notations
				write!(out, "{{\"type\":\"record\",\"doc\":\"logs in C:\\\\dir\\\\\",\"x-note\":\"two  spaces, a \\\\\\\" and a tab\\t here\",\"x-num\":[1e2,-0.50,1.0E+1],\"name\":\"{}\",\"fields\":[", type_name(*name)).unwrap();
			} else {
				write!(out, "{{\"type\":\"record\",\"name\":\"{}\",\"fields\":[", type_name(*name)).unwrap();
			}
			for (i, (f, t)) in fields.iter().enumerate() {
				if i > 0 {
					out.push(',');
				}
				if f % 5 == 2 {
					write!(out, "{{\"name\":\"{}\",\"doc\":\"champ \u{e9}\\t\",\"type\":", field_name(*f)).unwrap();
				} else {
					write!(out, "{{\"name\":\"{}\",\"type\":", field_name(*f)).unwrap();
				}
				// an UNKNOWN logical type must be ignored (the value is its underlying type); a primitive may also be
				// written in its long form {"type": "..."}
				match (f % 7, t) {
					(3, Ty::Long) => out.push_str("{\"type\":\"long\",\"logicalType\":\"x-wall-clock-micros\"}"),
					(3, Ty::Int) => out.push_str("{\"type\":\"int\",\"logicalType\":\"x-custom\",\"x-arg\":[1,2]}"),
					(3, Ty::String) => out.push_str("{\"type\":\"string\",\"logicalType\":\"x-custom-text\"}"),
					(3, Ty::Bytes) => out.push_str("{\"type\":\"bytes\",\"logicalType\":\"x-blob\"}"),
					(4, Ty::Boolean) => out.push_str("{\"type\":\"boolean\"}"),
					(4, Ty::Double) => out.push_str("{\"type\":\"double\"}"),
					(4, Ty::Null) => out.push_str("{\"type\":\"null\"}"),
					_ => render(t, out),
				}
				out.push('}');
			}
			out.push_str("]}");
		}
		Ty::Enum { name, symbols } => {
			write!(out, "{{\"type\":\"enum\",\"name\":\"{}\",\"symbols\":[", type_name(*name)).unwrap();
			for i in 0..*symbols {
				if i > 0 {
					out.push(',');
				}
				write!(out, "\"{}\"", symbol(i)).unwrap();
			}
			out.push_str("]}");
		}
		Ty::Fixed { name, size } => {
			write!(out, "{{\"type\":\"fixed\",\"name\":\"{}\",\"size\":{}}}", type_name(*name), size).unwrap();
		}
		Ty::Ref(n) => write!(out, "\"{}\"", type_name(*n)).unwrap(),
		Ty::DecimalBytes { scale, precision } => write!(
			out,
			"{{\"type\":\"bytes\",\"logicalType\":\"decimal\",\"precision\":{precision},\"scale\":{scale}}}"
		)
		.unwrap(),
		Ty::DecimalFixed { name, size, scale, precision } => write!(
			out,
			"{{\"type\":\"fixed\",\"name\":\"{}\",\"size\":{size},\"logicalType\":\"decimal\",\"precision\":{precision},\"scale\":{scale}}}",
			type_name(*name)
		)
		.unwrap(),
		Ty::BigDecimal => out.push_str("{\"type\":\"bytes\",\"logicalType\":\"big-decimal\"}"),
		Ty::Uuid => out.push_str("{\"type\":\"string\",\"logicalType\":\"uuid\"}"),
		Ty::Date => out.push_str("{\"type\":\"int\",\"logicalType\":\"date\"}"),
		Ty::TimeMillis => out.push_str("{\"type\":\"int\",\"logicalType\":\"time-millis\"}"),
		Ty::TimeMicros => out.push_str("{\"type\":\"long\",\"logicalType\":\"time-micros\"}"),
		Ty::TimestampMillis => out.push_str("{\"type\":\"long\",\"logicalType\":\"timestamp-millis\"}"),
		Ty::TimestampMicros => out.push_str("{\"type\":\"long\",\"logicalType\":\"timestamp-micros\"}"),
		Ty::Duration { name } => write!(
			out,
			"{{\"type\":\"fixed\",\"name\":\"{}\",\"size\":12,\"logicalType\":\"duration\"}}",
			type_name(*name)
		)
		.unwrap(),
	}
}

/// What the value generator has to do to make a schema from `gen_scale_schema` bite
#[derive(Clone, Copy, Debug, PartialEq, Eq, Serialize, Deserialize)]
pub struct Scale {
	/// element count of top-level arrays / maps (0 = ordinary)
	pub len: usize,
	/// levels of a recursive list (0 = ordinary)
	pub depth: u32,
	/// fields / branches / symbols of the wide node (budget only)
	pub width: u32,
	/// exact string / bytes length to hover around (0 = ordinary)
	pub str_len: usize,
}

/// Deliberately LARGE-SCALE but entirely legitimate schemas, which small random generation does not reach: counts,
/// indices and lengths whose varints take 2 or 3 bytes, hundreds of fields / branches / symbols / named types, values
/// around the 8 KiB and 64 KiB marks, nesting close to (but within) the default depth limit. `cheap` keeps the
/// encoded size small enough for checks that enumerate per-byte schedules.
pub fn gen_scale_schema(rng: &mut Rng, cheap: bool) -> (Ty, Scale) {
	let mut sc = Scale { len: 0, depth: 0, width: 0, str_len: 0 };
	let tail = |t: Ty| Ty::Record { name: 0, fields: vec![(0, t), (1, Ty::Long)] };
	let ty = match rng.below(8) {
		0 => {
			let symbols = *rng.pick(&[64u16, 65, 127, 128, 129, 255, 256, 257, 300]);
			sc.width = symbols as u32;
			tail(Ty::Array(Box::new(Ty::Enum { name: 1, symbols })))
		}
		1 => {
			// a union with many named branches: indices of 64 and more take two bytes
			let n = *rng.pick(&[62u16, 63, 64, 65, 126, 127, 128, 200]);
			sc.width = n as u32;
			let mut ts = vec![Ty::Null, Ty::String];
			for i in 0..n {
				let name = 32 + i;
				ts.push(match i % 3 {
					0 => Ty::Fixed { name, size: 1 + (i as u32 % 3) },
					1 => Ty::Enum { name, symbols: 2 },
					_ => Ty::Record { name, fields: vec![(0, Ty::Int)] },
				});
			}
			ts.push(Ty::Long);
			tail(Ty::Array(Box::new(Ty::Union(ts))))
		}
		2 => {
			let n = *rng.pick(&[63u16, 64, 65, 127, 128, 129, 255, 256, 300]);
			sc.width = n as u32;
			let fields = (0..n)
				.map(|i| {
					(
						i,
						// named types at irregular distances from one another (whatever is indexed by node or by name
						// sees many of them), scalars in between
						match i % 11 {
							0 => Ty::Int,
							1 | 6 => Ty::String,
							2 => Ty::Union(vec![Ty::Null, Ty::Long]),
							3 => Ty::Enum { name: 40 + i, symbols: 2 + i % 3 },
							4 => Ty::Boolean,
							5 => Ty::Fixed { name: 40 + i, size: 1 + (i as u32 % 4) },
							7 => Ty::Record { name: 40 + i, fields: vec![(0, Ty::Int), (1, Ty::Boolean)] },
							8 => Ty::Long,
							9 if i > 20 => Ty::Ref(40 + i - 6), // the enum six fields back
							_ => Ty::Bytes,
						},
					)
				})
				.collect();
			tail(Ty::Record { name: 1, fields })
		}
		3 | 4 => {
			// long arrays / maps: the block count takes 2 bytes from 64 and 3 bytes from 8192 elements
			sc.len = if cheap { *rng.pick(&[63usize, 64, 65, 127, 128, 200]) } else { *rng.pick(&[63usize, 64, 65, 128, 200, 1000, 8191, 8192, 8193, 20000]) };
			let elem = if sc.len > 1000 {
				rng.pick(&[Ty::Int, Ty::Null, Ty::Boolean, Ty::Long]).clone()
			} else {
				rng.pick(&[Ty::Int, Ty::Null, Ty::String, Ty::Union(vec![Ty::Null, Ty::Int]), Ty::Record { name: 1, fields: vec![(0, Ty::Int), (1, Ty::String)] }, Ty::Record { name: 1, fields: vec![] }]).clone()
			};
			if rng.bool() {
				tail(Ty::Array(Box::new(elem)))
			} else {
				tail(Ty::Map(Box::new(elem)))
			}
		}
		5 => {
			// a linked list nested as deep as the default depth limit (64) is documented to allow for sure: a level costs
			// the record, the union and what the target asks for in between (at most 4 per level, plus the root)
			sc.depth = *rng.pick(&[8u32, 12, 14, 15]);
			Ty::Record { name: 0, fields: vec![(0, Ty::Int), (1, Ty::Union(vec![Ty::Null, Ty::Ref(0)])), (2, Ty::String)] }
		}
		6 => {
			let size = if cheap { *rng.pick(&[64u32, 127, 128, 300]) } else { *rng.pick(&[64u32, 128, 8191, 8192, 8193, 16384, 65535, 65536, 65537, 70000]) };
			tail(Ty::Fixed { name: 1, size })
		}
		_ => {
			sc.str_len = if cheap { *rng.pick(&[63usize, 64, 65, 127, 128, 300]) } else { *rng.pick(&[63usize, 64, 8191, 8192, 8193, 8200, 16384, 65535, 65536, 65537, 70000, 140000]) };
			Ty::Record { name: 0, fields: vec![(0, Ty::String), (1, Ty::Bytes), (2, Ty::Long), (3, Ty::Union(vec![Ty::Null, Ty::String]))] }
		}
	};
	(ty, sc)
}

/// Another JSON spelling of the same schema with a FORWARD reference: the first named type that is referenced
/// again later (outside its own definition) is written by name at its first occurrence and defined in full at that
/// later reference. Same canonical form, same schema; `None` when no such type exists.
pub fn to_json_forward(root: &Ty) -> Option<String> {
	// find a definition (not the root itself, which cannot be replaced by a bare name... it can, but then the document
	// would start with a name: keep it simple) followed, in document order and outside its own body, by a Ref to it
	fn refs_outside(ty: &Ty, name: u16, inside_def: bool, found: &mut bool) {
		match ty {
			Ty::Ref(n) if *n == name && !inside_def => *found = true,
			Ty::Array(t) | Ty::Map(t) => refs_outside(t, name, inside_def, found),
			Ty::Union(ts) => ts.iter().for_each(|t| refs_outside(t, name, inside_def, found)),
			Ty::Record { name: n, fields } => {
				let inside = inside_def || *n == name;
				fields.iter().for_each(|(_, t)| refs_outside(t, name, inside, found));
			}
			_ => {}
		}
	}
	let mut defined = vec![];
	collect_defined(root, &mut defined);
	let root_name = match root {
		Ty::Record { name, .. } | Ty::Enum { name, .. } | Ty::Fixed { name, .. } | Ty::DecimalFixed { name, .. } | Ty::Duration { name } => Some(*name),
		_ => None,
	};
	let target = defined.into_iter().find(|n| {
		if Some(*n) == root_name {
			return false;
		}
		let mut f = false;
		refs_outside(root, *n, false, &mut f);
		f
	})?;
	// render: at the definition of `target` write its name and remember the definition; at the first Ref(target)
	// outside the definition write the remembered definition
	struct St<'a> {
		target: u16,
		def: Option<&'a Ty>,
		placed: bool,
	}
	fn go<'a>(ty: &'a Ty, st: &mut St<'a>, out: &mut String) {
		use std::fmt::Write;
		let is_target_def = match ty {
			Ty::Record { name, .. } | Ty::Enum { name, .. } | Ty::Fixed { name, .. } | Ty::DecimalFixed { name, .. } | Ty::Duration { name } => *name == st.target,
			_ => false,
		};
		if is_target_def && st.def.is_none() {
			st.def = Some(ty);
			write!(out, "\"{}\"", type_name(st.target)).unwrap();
			return;
		}
		match ty {
			Ty::Ref(n) if *n == st.target && !st.placed && st.def.is_some() => {
				st.placed = true;
				let def = st.def.unwrap();
				// the definition's own body may refer to itself by name: plain rendering is right for it
				render(def, out);
			}
			Ty::Array(t) => {
				out.push_str("{\"type\":\"array\",\"items\":");
				go(t, st, out);
				out.push('}');
			}
			Ty::Map(t) => {
				out.push_str("{\"type\":\"map\",\"values\":");
				go(t, st, out);
				out.push('}');
			}
			Ty::Union(ts) => {
				out.push('[');
				for (i, t) in ts.iter().enumerate() {
					if i > 0 {
						out.push(',');
					}
					go(t, st, out);
				}
				out.push(']');
			}
			Ty::Record { name, fields } => {
				write!(out, "{{\"type\":\"record\",\"name\":\"{}\",\"fields\":[", type_name(*name)).unwrap();
				for (i, (f, t)) in fields.iter().enumerate() {
					if i > 0 {
						out.push(',');
					}
					write!(out, "{{\"name\":\"{}\",\"type\":", field_name(*f)).unwrap();
					go(t, st, out);
					out.push('}');
				}
				out.push_str("]}");
			}
			other => render(other, out),
		}
	}
	let mut st = St { target, def: None, placed: false };
	let mut out = String::new();
	go(root, &mut st, &mut out);
	if st.placed {
		Some(out)
	} else {
		None
	}
}

/// Canonical form of the *plain* subset (no logical types) — used only by C18's endianness
/// cross-check; named types are written in full at first occurrence and by name afterwards.
pub fn canonical_form_plain(ty: &Ty) -> Option<String> {
	fn go(ty: &Ty, out: &mut String) -> bool {
		use std::fmt::Write;
		match ty {
			Ty::Null | Ty::Boolean | Ty::Int | Ty::Long | Ty::Float | Ty::Double | Ty::Bytes | Ty::String => {
				render(ty, out);
				true
			}
			Ty::Array(t) => {
				out.push_str("{\"type\":\"array\",\"items\":");
				let r = go(t, out);
				out.push('}');
				r
			}
			Ty::Map(t) => {
				out.push_str("{\"type\":\"map\",\"values\":");
				let r = go(t, out);
				out.push('}');
				r
			}
			Ty::Union(ts) => {
				out.push('[');
				let mut ok = true;
				for (i, t) in ts.iter().enumerate() {
					if i > 0 {
						out.push(',');
					}
					ok &= go(t, out);
				}
				out.push(']');
				ok
			}
			Ty::Record { name, fields } => {
				write!(out, "{{\"name\":\"{}\",\"type\":\"record\",\"fields\":[", type_name(*name)).unwrap();
				let mut ok = true;
				for (i, (f, t)) in fields.iter().enumerate() {
					if i > 0 {
						out.push(',');
					}
					write!(out, "{{\"name\":\"{}\",\"type\":", field_name(*f)).unwrap();
					ok &= go(t, out);
					out.push('}');
				}
				out.push_str("]}");
				ok
			}
			Ty::Enum { name, symbols } => {
				write!(out, "{{\"name\":\"{}\",\"type\":\"enum\",\"symbols\":[", type_name(*name)).unwrap();
				for i in 0..*symbols {
					if i > 0 {
						out.push(',');
					}
					write!(out, "\"{}\"", symbol(i)).unwrap();
				}
				out.push_str("]}");
				true
			}
			Ty::Fixed { name, size } => {
				write!(out, "{{\"name\":\"{}\",\"type\":\"fixed\",\"size\":{}}}", type_name(*name), size).unwrap();
				true
			}
			Ty::Ref(n) => {
				write!(out, "\"{}\"", type_name(*n)).unwrap();
				true
			}
			_ => false,
		}
	}
	let mut s = String::new();
	if go(ty, &mut s) {
		Some(s)
	} else {
		None
	}
}

// ---------------------------------------------------------------------------------------------
// generator

#[derive(Clone, Copy, Debug)]
pub struct GenCfg {
	pub max_depth: u32,
	pub logical: bool,
	pub recursion: bool,
	/// allow `duration` (needs tuple presentation) and decimals
	pub decimals: bool,
	pub max_fields: u32,
	/// bias toward nested records (C14/C15)
	pub record_bias: bool,
	/// decimals on a `fixed` wider than 16 bytes: the crate serializes them (sign extension) but documents that it
	/// does not deserialize them, so only checks that do not read values back may ask for them
	pub wide_decimal_fixed: bool,
}
impl GenCfg {
	pub fn default_swarm(rng: &mut Rng) -> Self {
		GenCfg {
			max_depth: 1 + rng.below(4) as u32,
			logical: rng.chance(1, 2),
			recursion: rng.chance(1, 3),
			decimals: rng.chance(1, 2),
			max_fields: 1 + rng.below(6) as u32,
			record_bias: rng.chance(1, 3),
			wide_decimal_fixed: false,
		}
	}
}

struct GenCtx<'a> {
	rng: &'a mut Rng,
	cfg: GenCfg,
	next_name: u16,
	exotic_next: u16,
	/// records currently being defined (their fields may reference them behind a guard)
	open: Vec<u16>,
	/// completely defined named types that may be referenced
	closed: Vec<u16>,
	/// names that denote a decimal-over-fixed / a duration (they behave specially inside unions)
	decimal_names: Vec<u16>,
	duration_names: Vec<u16>,
}

pub fn gen_schema(rng: &mut Rng, cfg: GenCfg) -> Ty {
	let mut ctx = GenCtx {
		rng,
		cfg,
		next_name: 0,
		exotic_next: 0,
		open: vec![],
		closed: vec![],
		decimal_names: vec![],
		duration_names: vec![],
	};
	let depth = ctx.cfg.max_depth;
	let ty = ctx.gen(depth, false, false);
	assert!(well_formed(&ty), "generator produced an ill-formed schema: {ty:?}");
	ty
}

#[derive(PartialEq, Eq, Clone, Copy, Debug)]
enum KindKey {
	Null,
	Boolean,
	IntFam,
	LongFam,
	Float,
	Double,
	BytesFam,
	StringFam,
	Array,
	Map,
	Decimal,
	Named(u16),
}

impl<'a> GenCtx<'a> {
	fn fresh_name(&mut self) -> Option<u16> {
		if self.exotic_next < 4 && self.rng.chance(1, 60) {
			self.exotic_next += 1;
			return Some((EXOTIC_FIRST as u16) + self.exotic_next - 1);
		}
		if (self.next_name as usize) < TYPE_NAMES.len() {
			self.next_name += 1;
			Some(self.next_name - 1)
		} else {
			None
		}
	}

	fn primitive(&mut self) -> Ty {
		let logical = self.cfg.logical;
		let n = if logical { 15 } else { 8 };
		match self.rng.below(n) {
			0 => Ty::Null,
			1 => Ty::Boolean,
			2 => Ty::Int,
			3 => Ty::Long,
			4 => Ty::Float,
			5 => Ty::Double,
			6 => Ty::Bytes,
			7 => Ty::String,
			8 => Ty::Uuid,
			9 => Ty::Date,
			10 => Ty::TimeMillis,
			11 => Ty::TimeMicros,
			12 => Ty::TimestampMillis,
			13 => Ty::TimestampMicros,
			_ => {
				if self.cfg.decimals {
					match self.rng.below(3) {
						0 => Ty::BigDecimal,
						1 => Ty::DecimalBytes {
							scale: self.rng.below(6) as u32,
							precision: 28,
						},
						_ => Ty::Long,
					}
				} else {
					Ty::Int
				}
			}
		}
	}

	/// `guarded`: a union/array/map lies between here and the innermost open record
	fn gen(&mut self, depth: u32, guarded: bool, in_union: bool) -> Ty {
		if depth == 0 {
			return self.leaf(guarded, in_union);
		}
		let record_w = if self.cfg.record_bias { 8 } else { 3 };
		let choice = self.rng.below(10 + record_w);
		match choice {
			0 | 1 | 2 => self.leaf(guarded, in_union),
			3 => Ty::Array(Box::new(self.gen(depth - 1, true, false))),
			4 => Ty::Map(Box::new(self.gen(depth - 1, true, false))),
			5 | 6 if !in_union => self.union(depth),
			7 => self.named_leaf(in_union),
			8 | 9 => self.leaf(guarded, in_union),
			_ => self.record(depth),
		}
	}

	fn leaf(&mut self, guarded: bool, in_union: bool) -> Ty {
		// reference to something already defined?
		if !self.closed.is_empty() && self.rng.chance(1, 6) {
			let n = *self.rng.pick(&self.closed);
			return Ty::Ref(n);
		}
		if guarded && self.cfg.recursion && !self.open.is_empty() && self.rng.chance(1, 3) {
			let n = *self.rng.pick(&self.open);
			return Ty::Ref(n);
		}
		if self.rng.chance(1, 5) {
			return self.named_leaf(in_union);
		}
		self.primitive()
	}

	fn named_leaf(&mut self, in_union: bool) -> Ty {
		let Some(name) = self.fresh_name() else {
			return self.primitive();
		};
		let n = if self.cfg.logical && self.cfg.decimals { 4 } else { 2 };
		let ty = match self.rng.below(n) {
			0 => Ty::Enum {
				name,
				symbols: 1 + self.rng.below(6) as u16,
			},
			1 => Ty::Fixed {
				name,
				size: *self.rng.pick(&[0u32, 1, 2, 4, 7, 12, 16, 33]),
			},
			2 if !in_union => {
				self.duration_names.push(name);
				Ty::Duration { name }
			}
			2 => Ty::Fixed { name, size: 12 },
			_ => {
				self.decimal_names.push(name);
				Ty::DecimalFixed {
				name,
				size: if self.cfg.wide_decimal_fixed { *self.rng.pick(&[8u32, 16, 17, 20, 32]) } else { *self.rng.pick(&[1u32, 2, 4, 8, 12, 16]) },
				scale: self.rng.below(4) as u32,
				precision: 28,
			}}
		};
		self.closed.push(name);
		ty
	}

	fn record(&mut self, depth: u32) -> Ty {
		let Some(name) = self.fresh_name() else {
			return self.primitive();
		};
		self.open.push(name);
		let n_fields = self.rng.below(self.cfg.max_fields as u64 + 1) as usize;
		let mut fields = Vec::with_capacity(n_fields);
		let mut field_ids: Vec<u16> = (0..FIELD_NAMES.len() as u16).collect();
		self.rng.shuffle(&mut field_ids);
		for i in 0..n_fields {
			let t = self.gen(depth - 1, false, false);
			fields.push((field_ids[i], t));
		}
		if n_fields > 0 && self.rng.chance(1, 40) {
			let k = self.rng.usize(n_fields);
			fields[k].0 = (EXOTIC_FIRST + self.rng.usize(4)) as u16;
		}
		self.open.pop();
		self.closed.push(name);
		Ty::Record { name, fields }
	}

	/// every "slot" a branch occupies inside a union (two branches may not share a slot)
	fn kind_keys(&self, ty: &Ty) -> Vec<KindKey> {
		match ty {
			Ty::Null => vec![KindKey::Null],
			Ty::Boolean => vec![KindKey::Boolean],
			Ty::Int | Ty::Date | Ty::TimeMillis => vec![KindKey::IntFam],
			Ty::Long | Ty::TimeMicros | Ty::TimestampMillis | Ty::TimestampMicros => vec![KindKey::LongFam],
			Ty::Float => vec![KindKey::Float],
			Ty::Double => vec![KindKey::Double],
			Ty::Bytes | Ty::BigDecimal => vec![KindKey::BytesFam],
			Ty::DecimalBytes { .. } => vec![KindKey::Decimal, KindKey::BytesFam],
			Ty::DecimalFixed { name, .. } => vec![KindKey::Decimal, KindKey::Named(*name)],
			Ty::String | Ty::Uuid => vec![KindKey::StringFam],
			Ty::Array(_) => vec![KindKey::Array],
			Ty::Map(_) => vec![KindKey::Map],
			Ty::Union(_) => unreachable!(),
			Ty::Record { name, .. } | Ty::Enum { name, .. } | Ty::Fixed { name, .. } | Ty::Duration { name } => vec![KindKey::Named(*name)],
			Ty::Ref(n) => {
				if self.decimal_names.contains(n) {
					vec![KindKey::Decimal, KindKey::Named(*n)]
				} else {
					vec![KindKey::Named(*n)]
				}
			}
		}
	}

	fn union(&mut self, depth: u32) -> Ty {
		let n = 1 + self.rng.below(4) as usize;
		let mut branches: Vec<Ty> = Vec::new();
		let mut keys: Vec<KindKey> = Vec::new();
		// a null branch most of the time, at a random position
		let want_null = self.rng.chance(3, 4);
		for _ in 0..n {
			// snapshot so that a rejected branch disappears completely (names included)
			let snap_next = self.next_name;
			let snap_exotic = self.exotic_next;
			let snap_closed = self.closed.clone();
			// (by value, not by "ids below the snapshot": the names outside ASCII have ids above every pool id, and a
			// duration defined EARLIER under such a name must stay known as one — found by the thorough tier of C15)
			let (snap_decimals, snap_durations) = (self.decimal_names.clone(), self.duration_names.clone());
			let t = self.gen(depth - 1, true, true);
			let mut reject = matches!(t, Ty::Union(_) | Ty::Duration { .. }) || matches!(&t, Ty::Ref(n) if self.duration_names.contains(n));
			let mut ks = vec![];
			if !reject {
				ks = self.kind_keys(&t);
				if ks.iter().any(|k| keys.contains(k)) {
					reject = true;
				}
			}
			if reject {
				self.next_name = snap_next;
				self.exotic_next = snap_exotic;
				self.closed = snap_closed;
				self.decimal_names = snap_decimals;
				self.duration_names = snap_durations;
				continue;
			}
			keys.extend(ks);
			branches.push(t);
		}
		let has_null = keys.contains(&KindKey::Null);
		let has_rec_ref = branches.iter().any(|b| matches!(b, Ty::Ref(n) if self.open.contains(n)));
		if (want_null || has_rec_ref || branches.is_empty()) && !has_null {
			let pos = self.rng.usize(branches.len() + 1);
			branches.insert(pos, Ty::Null);
		}
		Ty::Union(branches)
	}
}

pub fn collect_defined(ty: &Ty, out: &mut Vec<u16>) {
	match ty {
		Ty::Array(t) | Ty::Map(t) => collect_defined(t, out),
		Ty::Union(ts) => ts.iter().for_each(|t| collect_defined(t, out)),
		Ty::Record { name, fields } => {
			out.push(*name);
			fields.iter().for_each(|(_, t)| collect_defined(t, out));
		}
		Ty::Enum { name, .. } | Ty::Fixed { name, .. } | Ty::DecimalFixed { name, .. } | Ty::Duration { name } => {
			out.push(*name)
		}
		_ => {}
	}
}

/// Checks the invariants the generator promises (every Ref resolves to a definition that precedes
/// it in document order or encloses it). Used by shrinking to reject invalid candidates.
pub fn well_formed(root: &Ty) -> bool {
	fn go(ty: &Ty, defined: &mut Vec<u16>, in_union: bool) -> bool {
		match ty {
			Ty::Array(t) | Ty::Map(t) => go(t, defined, false),
			Ty::Union(ts) => {
				if in_union || ts.is_empty() {
					return false;
				}
				ts.iter().all(|t| go(t, defined, true))
			}
			Ty::Record { name, fields } => {
				if defined.contains(name) {
					return false;
				}
				defined.push(*name);
				fields.iter().all(|(_, t)| go(t, defined, false))
			}
			Ty::Enum { name, .. } | Ty::Fixed { name, .. } | Ty::DecimalFixed { name, .. } | Ty::Duration { name } => {
				if defined.contains(name) {
					return false;
				}
				defined.push(*name);
				true
			}
			Ty::Ref(n) => defined.contains(n),
			_ => true,
		}
	}
	go(root, &mut vec![], false)
}

/// A fixed list of hand-written corner schemas (zero-width values, 1-byte values, big payloads)
pub fn corner_schemas() -> Vec<Ty> {
	vec![
		Ty::Null,
		Ty::Record { name: 0, fields: vec![] },
		Ty::Fixed { name: 0, size: 0 },
		Ty::Boolean,
		Ty::Int,
		Ty::Bytes,
		Ty::String,
		Ty::Array(Box::new(Ty::Null)),
		Ty::Map(Box::new(Ty::Long)),
		Ty::Union(vec![Ty::Null, Ty::String]),
		Ty::Record {
			name: 0,
			fields: vec![(0, Ty::Long), (1, Ty::String)],
		},
		Ty::Record {
			name: 0,
			fields: vec![(0, Ty::Int), (1, Ty::Union(vec![Ty::Null, Ty::Ref(0)]))],
		},
		Ty::Record {
			name: 0,
			fields: vec![
				(0, Ty::Bytes),
				(1, Ty::Array(Box::new(Ty::Record { name: 1, fields: vec![(2, Ty::String), (3, Ty::Double)] }))),
				(4, Ty::Union(vec![Ty::Null, Ty::Ref(1), Ty::Long])),
			],
		},
	]
}

/// the least number of bytes a value of this type occupies
pub fn min_width(env: &Env, ty: &Ty, depth: u32) -> usize {
	if depth > 8 {
		return 0;
	}
	match env.resolve(ty) {
		Ty::Null => 0,
		Ty::Fixed { size, .. } | Ty::DecimalFixed { size, .. } => *size as usize,
		Ty::Record { fields, .. } => fields.iter().map(|(_, t)| min_width(env, t, depth + 1)).sum(),
		Ty::Float => 4,
		Ty::Double => 8,
		Ty::Duration { .. } => 12,
		Ty::BigDecimal => 3,
		_ => 1,
	}
}
