//! Deserialization targets owned by the simulator.
//!
//! * `Capture`  — schema-directed `DeserializeSeed` walking the sim AST into a `Val` (observes union
//!   branch through the enum-hint route, enum symbols, fixed vs bytes, decimals, durations).
//! * `Blind`    — `deserialize_any` everywhere (what a transcoder would do).
//! * `HashSeed` — folds everything it is shown into a 64-bit hash without allocating.
//! All count visitor callbacks and nesting depth.

use crate::ast::{self, Env, Ty};
use crate::val::{parse_decimal, Val};
use serde::de::{self, DeserializeSeed, Deserializer, EnumAccess, MapAccess, SeqAccess, VariantAccess, Visitor};
use std::cell::Cell;
use std::fmt;

pub const MASKED: &str = "<masked>";
/// both paths of a comparison hit the same cap, so it cannot create a disagreement
pub const CAPTURE_ELEM_CAP: usize = 1_000_000;
thread_local! {
	/// how many callbacks the ignoring visitor takes before it gives up (C04 sets it from its work bound)
	pub static IGNORE_CALLBACK_CAP: Cell<u64> = const { Cell::new(50_000_000) };
}

pub struct CapCtx<'a> {
	pub env: &'a Env,
	pub callbacks: Cell<u64>,
	pub depth: Cell<u32>,
	pub max_depth: Cell<u32>,
	/// `Some(seed)`: record fields whose hash bit is set are deserialized into `IgnoredAny`
	pub mask: Option<u64>,
	pub enum_as_u64: bool,
	pub duration_as_bytes: bool,
	/// `Some(seed)`: per node, a coin decides whether an *alternative* serde hint is used (deserialize_option for
	/// nullable unions, deserialize_str for bytes / fixed, deserialize_i128 / u64 / f64 for decimals,
	/// deserialize_identifier for ints, deserialize_string / byte_buf / char ...): the paths a typed target would take
	pub alt: Option<u64>,
	field_ctr: Cell<u64>,
	alt_ctr: Cell<u64>,
}
impl<'a> CapCtx<'a> {
	pub fn new(env: &'a Env) -> Self {
		CapCtx {
			env,
			callbacks: Cell::new(0),
			depth: Cell::new(0),
			max_depth: Cell::new(0),
			mask: None,
			enum_as_u64: false,
			duration_as_bytes: false,
			alt: None,
			field_ctr: Cell::new(0),
			alt_ctr: Cell::new(0),
		}
	}
	/// 0 = use the default hint; otherwise a small number selecting an alternative
	fn alt_choice(&self) -> u64 {
		match self.alt {
			None => 0,
			Some(seed) => {
				let n = self.alt_ctr.get();
				self.alt_ctr.set(n + 1);
				let mut x = seed ^ n.wrapping_mul(0xD134_2543_DE82_EF95);
				let r = crate::prng::splitmix(&mut x);
				if r & 1 == 0 {
					0
				} else {
					1 + (r >> 8) % 8
				}
			}
		}
	}
	pub fn masked(env: &'a Env, seed: u64) -> Self {
		let mut c = Self::new(env);
		c.mask = Some(seed);
		c
	}
	fn tick(&self) {
		self.callbacks.set(self.callbacks.get() + 1);
	}
	fn enter(&self) {
		let d = self.depth.get() + 1;
		self.depth.set(d);
		if d > self.max_depth.get() {
			self.max_depth.set(d);
		}
	}
	fn leave(&self) {
		self.depth.set(self.depth.get() - 1);
	}
	fn is_masked(&self) -> bool {
		match self.mask {
			None => false,
			Some(seed) => {
				let n = self.field_ctr.get();
				self.field_ctr.set(n + 1);
				let mut x = seed ^ n.wrapping_mul(0x9E37_79B9_7F4A_7C15);
				crate::prng::splitmix(&mut x) & 1 == 1
			}
		}
	}
}

#[derive(Clone, Copy)]
pub struct Capture<'a> {
	pub ty: &'a Ty,
	pub ctx: &'a CapCtx<'a>,
}

fn mism<E: de::Error>(what: &str, ty: &Ty) -> E {
	E::custom(format_args!("CAPTURE-MISMATCH: got {what} for {ty:?}"))
}

enum Raw {
	Unit,
	Bool(bool),
	I64(i64),
	U64(u64),
	I128(i128),
	F32(u32),
	F64(u64),
	Str(String),
	Bytes(Vec<u8>),
}
impl Raw {
	fn kind(&self) -> &'static str {
		match self {
			Raw::Unit => "unit",
			Raw::Bool(_) => "bool",
			Raw::I64(_) => "i64",
			Raw::U64(_) => "u64",
			Raw::I128(_) => "i128",
			Raw::F32(_) => "f32",
			Raw::F64(_) => "f64",
			Raw::Str(_) => "str",
			Raw::Bytes(_) => "bytes",
		}
	}
}

#[derive(Clone, Copy)]
struct ScalarV<'a>(&'a CapCtx<'a>);
impl<'de, 'a> Visitor<'de> for ScalarV<'a> {
	type Value = Raw;
	fn expecting(&self, f: &mut fmt::Formatter) -> fmt::Result {
		f.write_str("a scalar")
	}
	/// a newtype struct around a scalar (`struct Id(u64)`): whatever is inside
	fn visit_newtype_struct<D: Deserializer<'de>>(self, d: D) -> Result<Raw, D::Error> {
		self.0.tick();
		d.deserialize_any(self)
	}
	fn visit_some<D: Deserializer<'de>>(self, d: D) -> Result<Raw, D::Error> {
		self.0.tick();
		d.deserialize_any(self)
	}
	/// a Rust enum of unit variants: the variant's name
	fn visit_enum<A: EnumAccess<'de>>(self, data: A) -> Result<Raw, A::Error> {
		self.0.tick();
		let (name, variant) = data.variant_seed(IdentSeed(self))?;
		variant.unit_variant()?;
		Ok(name)
	}
	fn visit_unit<E: de::Error>(self) -> Result<Raw, E> {
		self.0.tick();
		Ok(Raw::Unit)
	}
	fn visit_none<E: de::Error>(self) -> Result<Raw, E> {
		self.0.tick();
		Ok(Raw::Unit)
	}
	fn visit_bool<E: de::Error>(self, v: bool) -> Result<Raw, E> {
		self.0.tick();
		Ok(Raw::Bool(v))
	}
	fn visit_i32<E: de::Error>(self, v: i32) -> Result<Raw, E> {
		self.0.tick();
		Ok(Raw::I64(v as i64))
	}
	fn visit_i64<E: de::Error>(self, v: i64) -> Result<Raw, E> {
		self.0.tick();
		Ok(Raw::I64(v))
	}
	fn visit_u32<E: de::Error>(self, v: u32) -> Result<Raw, E> {
		self.0.tick();
		Ok(Raw::U64(v as u64))
	}
	fn visit_u64<E: de::Error>(self, v: u64) -> Result<Raw, E> {
		self.0.tick();
		Ok(Raw::U64(v))
	}
	fn visit_i128<E: de::Error>(self, v: i128) -> Result<Raw, E> {
		self.0.tick();
		Ok(Raw::I128(v))
	}
	fn visit_u128<E: de::Error>(self, v: u128) -> Result<Raw, E> {
		self.0.tick();
		Ok(Raw::I128(v as i128))
	}
	fn visit_f32<E: de::Error>(self, v: f32) -> Result<Raw, E> {
		self.0.tick();
		Ok(Raw::F32(v.to_bits()))
	}
	fn visit_f64<E: de::Error>(self, v: f64) -> Result<Raw, E> {
		self.0.tick();
		Ok(Raw::F64(v.to_bits()))
	}
	fn visit_str<E: de::Error>(self, v: &str) -> Result<Raw, E> {
		self.0.tick();
		Ok(Raw::Str(v.to_owned()))
	}
	fn visit_bytes<E: de::Error>(self, v: &[u8]) -> Result<Raw, E> {
		self.0.tick();
		Ok(Raw::Bytes(v.to_vec()))
	}
}

struct IdentSeed<'a>(ScalarV<'a>);
impl<'de, 'a> DeserializeSeed<'de> for IdentSeed<'a> {
	type Value = Raw;
	fn deserialize<D: Deserializer<'de>>(self, d: D) -> Result<Raw, D::Error> {
		d.deserialize_identifier(self.0)
	}
}

impl<'de, 'a> DeserializeSeed<'de> for Capture<'a> {
	type Value = Val;
	fn deserialize<D: Deserializer<'de>>(self, d: D) -> Result<Val, D::Error> {
		// what the format says of itself to the caller's types (std's IpAddr, uuid, chrono ... choose their
		// representation by it): recorded, and compared with what the serializer says
		HUMAN_READABLE.with(|h| {
			let (ser, _) = h.get();
			h.set((ser, Some(d.is_human_readable())));
		});
		let ctx = self.ctx;
		let ty = ctx.env.resolve(self.ty);
		let sv = ScalarV(ctx);
		let alt = ctx.alt_choice();
		if alt != 0 {
			// whatever comes back is recorded as it is: the comparison is slice path against reader path
			let raw_to_val = |r: Raw| match r {
				Raw::Unit => Val::Null,
				Raw::Bool(b) => Val::Bool(b),
				Raw::I64(v) => Val::Long(v),
				Raw::U64(v) => Val::Decimal { unscaled: v as i128, scale: 0 },
				Raw::I128(v) => Val::Decimal { unscaled: v, scale: 0 },
				Raw::F32(b) => Val::Float(b),
				Raw::F64(b) => Val::Double(b),
				Raw::Str(s) => Val::Str(s),
				Raw::Bytes(b) => Val::Bytes(b),
			};
			match ty {
				Ty::Bytes | Ty::Fixed { .. } => {
					return Ok(raw_to_val(match alt {
						1 => d.deserialize_str(sv)?,
						2 => d.deserialize_string(sv)?,
						3 => d.deserialize_byte_buf(sv)?,
						4 => d.deserialize_any(sv)?,
						5 => d.deserialize_char(sv)?,
						6 => d.deserialize_newtype_struct("N", sv)?,
						7 => d.deserialize_option(sv)?,
						_ => d.deserialize_identifier(sv)?,
					}))
				}
				Ty::String | Ty::Uuid => {
					return Ok(raw_to_val(match alt {
						1 => d.deserialize_string(sv)?,
						2 => d.deserialize_bytes(sv)?,
						3 => d.deserialize_identifier(sv)?,
						4 => d.deserialize_any(sv)?,
						5 => d.deserialize_char(sv)?,
						6 => d.deserialize_newtype_struct("N", sv)?,
						7 => d.deserialize_byte_buf(sv)?,
						_ => d.deserialize_enum("E", &[], sv)?,
					}))
				}
				Ty::DecimalBytes { .. } | Ty::DecimalFixed { .. } | Ty::BigDecimal => {
					return Ok(raw_to_val(match alt {
						1 => d.deserialize_i128(sv)?,
						2 => d.deserialize_u64(sv)?,
						3 => d.deserialize_f64(sv)?,
						4 => d.deserialize_i64(sv)?,
						5 => d.deserialize_str(sv)?,
						6 => d.deserialize_u128(sv)?,
						7 => d.deserialize_f32(sv)?,
						_ => d.deserialize_bytes(sv)?,
					}))
				}
				Ty::Int | Ty::Long | Ty::Date | Ty::TimeMillis | Ty::TimeMicros | Ty::TimestampMillis | Ty::TimestampMicros => {
					return Ok(raw_to_val(match alt {
						1 => d.deserialize_identifier(sv)?,
						2 => d.deserialize_u64(sv)?,
						3 => d.deserialize_i64(sv)?,
						4 => d.deserialize_any(sv)?,
						5 => d.deserialize_u8(sv)?,
						6 => d.deserialize_i16(sv)?,
						7 => d.deserialize_f64(sv)?,
						_ => d.deserialize_newtype_struct("N", sv)?,
					}))
				}
				Ty::Float | Ty::Double if alt <= 4 => {
					return Ok(raw_to_val(match alt {
						1 => d.deserialize_f64(sv)?,
						2 => d.deserialize_f32(sv)?,
						3 => d.deserialize_any(sv)?,
						_ => d.deserialize_newtype_struct("N", sv)?,
					}))
				}
				Ty::Boolean if alt <= 2 => {
					return Ok(raw_to_val(match alt {
						1 => d.deserialize_any(sv)?,
						_ => d.deserialize_option(sv)?,
					}))
				}
				Ty::Null if alt <= 3 => {
					return Ok(raw_to_val(match alt {
						1 => d.deserialize_option(sv)?,
						2 => d.deserialize_unit_struct("N", sv)?,
						_ => d.deserialize_any(sv)?,
					}))
				}
				Ty::Enum { .. } => {
					return Ok(raw_to_val(match alt {
						1 => d.deserialize_u64(sv)?,
						2 => d.deserialize_identifier(sv)?,
						3 => d.deserialize_str(sv)?,
						4 => d.deserialize_any(sv)?,
						5 => d.deserialize_enum("E", &[], sv)?,
						6 => d.deserialize_string(sv)?,
						7 => d.deserialize_i32(sv)?,
						_ => d.deserialize_bytes(sv)?,
					}))
				}
				Ty::Union(ts) if alt <= 2 => {
					return d.deserialize_option(OptionV { branches: ts, ctx });
				}
				Ty::Duration { .. } => {
					return match alt {
						1 => d.deserialize_bytes(sv).map(raw_to_val),
						2 => d.deserialize_seq(DurV { ctx }),
						_ => d.deserialize_tuple_struct("D", 3, DurV { ctx }),
					};
				}
				Ty::Record { fields, .. } if alt == 1 => return d.deserialize_map(RecV { fields, ctx }),
				Ty::Record { fields, .. } if alt == 2 => return d.deserialize_any(RecV { fields, ctx }),
				Ty::Array(t) if alt == 1 => return d.deserialize_tuple(0, SeqV { elem: t, ctx }),
				Ty::Array(t) if alt == 2 => return d.deserialize_tuple_struct("T", 0, SeqV { elem: t, ctx }),
				Ty::Array(t) if alt == 3 => return d.deserialize_any(SeqV { elem: t, ctx }),
				Ty::Map(t) if alt == 1 => return d.deserialize_any(MapV { val: t, ctx }),
				Ty::Map(t) if alt == 2 => return d.deserialize_struct("M", &[], MapV { val: t, ctx }),
				_ => {}
			}
		}
		match ty {
			Ty::Null => match d.deserialize_unit(sv)? {
				Raw::Unit => Ok(Val::Null),
				o => Err(mism(o.kind(), ty)),
			},
			Ty::Boolean => match d.deserialize_bool(sv)? {
				Raw::Bool(b) => Ok(Val::Bool(b)),
				o => Err(mism(o.kind(), ty)),
			},
			Ty::Int | Ty::Date | Ty::TimeMillis => match d.deserialize_i32(sv)? {
				Raw::I64(v) if i32::try_from(v).is_ok() => Ok(Val::Int(v as i32)),
				o => Err(mism(o.kind(), ty)),
			},
			Ty::Long | Ty::TimeMicros | Ty::TimestampMillis | Ty::TimestampMicros => match d.deserialize_i64(sv)? {
				Raw::I64(v) => Ok(Val::Long(v)),
				o => Err(mism(o.kind(), ty)),
			},
			Ty::Float => match d.deserialize_f32(sv)? {
				Raw::F32(b) => Ok(Val::Float(b)),
				o => Err(mism(o.kind(), ty)),
			},
			Ty::Double => match d.deserialize_f64(sv)? {
				Raw::F64(b) => Ok(Val::Double(b)),
				o => Err(mism(o.kind(), ty)),
			},
			Ty::Bytes => match d.deserialize_bytes(sv)? {
				Raw::Bytes(b) => Ok(Val::Bytes(b)),
				o => Err(mism(o.kind(), ty)),
			},
			Ty::String | Ty::Uuid => match d.deserialize_str(sv)? {
				Raw::Str(s) => Ok(Val::Str(s)),
				o => Err(mism(o.kind(), ty)),
			},
			Ty::Fixed { size, .. } => match d.deserialize_bytes(sv)? {
				Raw::Bytes(b) if b.len() == *size as usize => Ok(Val::Fixed(b)),
				o => Err(mism(o.kind(), ty)),
			},
			Ty::Enum { symbols, .. } => {
				if ctx.enum_as_u64 {
					match d.deserialize_u64(sv)? {
						Raw::U64(i) if i < *symbols as u64 => Ok(Val::Enum(i as u16)),
						o => Err(mism(o.kind(), ty)),
					}
				} else {
					match d.deserialize_any(sv)? {
						Raw::Str(s) => match (0..*symbols).find(|i| ast::symbol(*i) == s) {
							Some(i) => Ok(Val::Enum(i)),
							None => Err(mism("unknown symbol", ty)),
						},
						o => Err(mism(o.kind(), ty)),
					}
				}
			}
			Ty::Array(t) => d.deserialize_seq(SeqV { elem: t, ctx }),
			Ty::Map(t) => d.deserialize_map(MapV { val: t, ctx }),
			Ty::Record { fields, .. } => d.deserialize_struct("R", &[], RecV { fields, ctx }),
			Ty::Union(ts) => d.deserialize_enum("U", &[], UnionV { branches: ts, ctx }),
			Ty::Ref(_) => unreachable!(),
			Ty::DecimalBytes { .. } | Ty::DecimalFixed { .. } | Ty::BigDecimal => match d.deserialize_any(sv)? {
				Raw::Str(s) => match parse_decimal(&s) {
					Some((unscaled, scale)) => Ok(Val::Decimal { unscaled, scale }),
					None => Err(mism("unparsable decimal string", ty)),
				},
				o => Err(mism(o.kind(), ty)),
			},
			Ty::Duration { .. } => {
				if ctx.duration_as_bytes {
					match d.deserialize_bytes(sv)? {
						Raw::Bytes(b) if b.len() == 12 => Ok(Val::Duration([
							u32::from_le_bytes(b[0..4].try_into().unwrap()),
							u32::from_le_bytes(b[4..8].try_into().unwrap()),
							u32::from_le_bytes(b[8..12].try_into().unwrap()),
						])),
						o => Err(mism(o.kind(), ty)),
					}
				} else {
					d.deserialize_tuple(3, DurV { ctx })
				}
			}
		}
	}
}

struct SeqV<'a> {
	elem: &'a Ty,
	ctx: &'a CapCtx<'a>,
}
impl<'de, 'a> Visitor<'de> for SeqV<'a> {
	type Value = Val;
	fn expecting(&self, f: &mut fmt::Formatter) -> fmt::Result {
		f.write_str("an array")
	}
	fn visit_seq<A: SeqAccess<'de>>(self, mut seq: A) -> Result<Val, A::Error> {
		self.ctx.tick();
		self.ctx.enter();
		watch_size_hint(seq.size_hint(), crate::ast::min_width(self.ctx.env, self.elem, 0));
		let mut out = Vec::new();
		let r = loop {
			if out.len() > CAPTURE_ELEM_CAP {
				break Err(de::Error::custom("CAPTURE-LIMIT: more elements than the harness is willing to hold"));
			}
			match seq.next_element_seed(Capture { ty: self.elem, ctx: self.ctx }) {
				Ok(Some(v)) => out.push(v),
				Ok(None) => break Ok(Val::Array(out)),
				Err(e) => break Err(e),
			}
		};
		self.ctx.leave();
		r
	}
}

fn watch_size_hint(hint: Option<usize>, elem_min_width: usize) {
	if let (Some(h), true) = (hint, elem_min_width >= 1) {
		SIZE_HINT_WATCH.with(|w| {
			let (len, worst) = w.get();
			if h > len && worst.map_or(true, |x| h > x) {
				w.set((len, Some(h)));
			}
		});
	}
}

struct MapV<'a> {
	val: &'a Ty,
	ctx: &'a CapCtx<'a>,
}
impl<'de, 'a> Visitor<'de> for MapV<'a> {
	type Value = Val;
	fn expecting(&self, f: &mut fmt::Formatter) -> fmt::Result {
		f.write_str("a map")
	}
	fn visit_map<A: MapAccess<'de>>(self, mut map: A) -> Result<Val, A::Error> {
		self.ctx.tick();
		self.ctx.enter();
		// (a map entry is at least its key's length prefix: one byte)
		watch_size_hint(map.size_hint(), 1);
		let mut out = Vec::new();
		let r = loop {
			if out.len() > CAPTURE_ELEM_CAP {
				break Err(de::Error::custom("CAPTURE-LIMIT: more elements than the harness is willing to hold"));
			}
			match map.next_key::<String>() {
				Ok(Some(k)) => match map.next_value_seed(Capture { ty: self.val, ctx: self.ctx }) {
					Ok(v) => out.push((k, v)),
					Err(e) => break Err(e),
				},
				Ok(None) => break Ok(Val::Map(out)),
				Err(e) => break Err(e),
			}
		};
		self.ctx.leave();
		r
	}
}

struct RecV<'a> {
	fields: &'a [(u16, Ty)],
	ctx: &'a CapCtx<'a>,
}
impl<'de, 'a> Visitor<'de> for RecV<'a> {
	type Value = Val;
	fn expecting(&self, f: &mut fmt::Formatter) -> fmt::Result {
		f.write_str("a record")
	}
	fn visit_map<A: MapAccess<'de>>(self, mut map: A) -> Result<Val, A::Error> {
		self.ctx.tick();
		self.ctx.enter();
		let mut out = Vec::with_capacity(self.fields.len());
		let r = (|| {
			for (fname, fty) in self.fields {
				match map.next_key::<String>()? {
					Some(k) if k == ast::field_name(*fname) => {}
					Some(_) => return Err(de::Error::custom("CAPTURE-MISMATCH: unexpected field name")),
					None => return Err(de::Error::custom("CAPTURE-MISMATCH: record ended early")),
				}
				if self.ctx.is_masked() {
					map.next_value_seed(IgnoreSeed { callbacks: &self.ctx.callbacks, cap: IGNORE_CALLBACK_CAP.with(|c| c.get()) })?;
					out.push(Val::Str(MASKED.to_owned()));
				} else {
					out.push(map.next_value_seed(Capture { ty: fty, ctx: self.ctx })?);
				}
			}
			if map.next_key::<String>()?.is_some() {
				return Err(de::Error::custom("CAPTURE-MISMATCH: extra record field"));
			}
			Ok(Val::Record(out))
		})();
		self.ctx.leave();
		r
	}
}

struct UnionV<'a> {
	branches: &'a [Ty],
	ctx: &'a CapCtx<'a>,
}
impl<'de, 'a> Visitor<'de> for UnionV<'a> {
	type Value = Val;
	fn expecting(&self, f: &mut fmt::Formatter) -> fmt::Result {
		f.write_str("a union")
	}
	fn visit_enum<A: EnumAccess<'de>>(self, data: A) -> Result<Val, A::Error> {
		self.ctx.tick();
		self.ctx.enter();
		let r = (|| {
			let (name, variant): (String, A::Variant) = data.variant()?;
			let Some(idx) = self
				.branches
				.iter()
				.position(|b| ast::branch_type_name(self.ctx.env, b) == name)
			else {
				return Err(de::Error::custom(format_args!(
					"CAPTURE-MISMATCH: unknown union branch name {name:?}"
				)));
			};
			let inner = variant.newtype_variant_seed(Capture { ty: &self.branches[idx], ctx: self.ctx })?;
			Ok(Val::Union(idx as u16, Box::new(inner)))
		})();
		self.ctx.leave();
		r
	}
}

/// `deserialize_option` on a union: `None` for the null branch, otherwise the inner value through a blind
/// visitor (the crate picks the branch; which one is not observable on this route, so the value is kept raw)
struct OptionV<'a> {
	#[allow(dead_code)]
	branches: &'a [Ty],
	ctx: &'a CapCtx<'a>,
}
impl<'de, 'a> Visitor<'de> for OptionV<'a> {
	type Value = Val;
	fn expecting(&self, f: &mut fmt::Formatter) -> fmt::Result {
		f.write_str("an option")
	}
	fn visit_none<E: de::Error>(self) -> Result<Val, E> {
		self.ctx.tick();
		Ok(Val::Null)
	}
	fn visit_unit<E: de::Error>(self) -> Result<Val, E> {
		self.ctx.tick();
		Ok(Val::Null)
	}
	fn visit_some<D: Deserializer<'de>>(self, d: D) -> Result<Val, D::Error> {
		self.ctx.tick();
		self.ctx.enter();
		let r = Blind { callbacks: &self.ctx.callbacks }.deserialize(d);
		self.ctx.leave();
		r.map(|v| Val::Array(vec![v]))
	}
}

struct DurV<'a> {
	ctx: &'a CapCtx<'a>,
}
impl<'de, 'a> Visitor<'de> for DurV<'a> {
	type Value = Val;
	fn expecting(&self, f: &mut fmt::Formatter) -> fmt::Result {
		f.write_str("a duration")
	}
	fn visit_seq<A: SeqAccess<'de>>(self, mut seq: A) -> Result<Val, A::Error> {
		self.ctx.tick();
		let mut d = [0u32; 3];
		for slot in d.iter_mut() {
			match seq.next_element::<u32>()? {
				Some(v) => *slot = v,
				None => return Err(de::Error::custom("CAPTURE-MISMATCH: short duration")),
			}
		}
		if seq.next_element::<u32>()?.is_some() {
			return Err(de::Error::custom("CAPTURE-MISMATCH: long duration"));
		}
		Ok(Val::Duration(d))
	}
}

// ---------------------------------------------------------------------------------------------

/// `deserialize_any` everywhere
pub struct Blind<'a> {
	pub callbacks: &'a Cell<u64>,
}
thread_local! {
	/// the largest `size_hint()` a sequence / map accessor gave in excess of what the input could possibly hold
	/// (elements at least one byte wide: a hint above the input's length is a number written in the input, handed to
	/// the caller's `Vec::with_capacity`): (input length set by the check, worst hint seen)
	pub static SIZE_HINT_WATCH: Cell<(usize, Option<usize>)> = const { Cell::new((usize::MAX, None)) };
	/// (what the serializer last said of is_human_readable(), what the deserializer last said)
	pub static HUMAN_READABLE: Cell<(Option<bool>, Option<bool>)> = const { Cell::new((None, None)) };
	/// while set, the blind target REFUSES every string / bytes leaf with serde's stock `invalid_type` error, which
	/// quotes the value it was given (what a caller's type does when it wanted a number, an enum variant, a known
	/// field name): the decoder must turn that into `Err`, whatever the content quoted
	pub static BLIND_REJECTS_LEAVES: Cell<bool> = const { Cell::new(false) };
}
impl<'de, 'a> DeserializeSeed<'de> for Blind<'a> {
	type Value = Val;
	fn deserialize<D: Deserializer<'de>>(self, d: D) -> Result<Val, D::Error> {
		d.deserialize_any(BlindV { callbacks: self.callbacks })
	}
}
struct BlindV<'a> {
	callbacks: &'a Cell<u64>,
}
impl<'a> BlindV<'a> {
	fn tick(&self) {
		self.callbacks.set(self.callbacks.get() + 1);
	}
}
impl<'de, 'a> Visitor<'de> for BlindV<'a> {
	type Value = Val;
	fn expecting(&self, f: &mut fmt::Formatter) -> fmt::Result {
		f.write_str("anything")
	}
	fn visit_unit<E: de::Error>(self) -> Result<Val, E> {
		self.tick();
		Ok(Val::Null)
	}
	fn visit_bool<E: de::Error>(self, v: bool) -> Result<Val, E> {
		self.tick();
		Ok(Val::Bool(v))
	}
	fn visit_i32<E: de::Error>(self, v: i32) -> Result<Val, E> {
		self.tick();
		Ok(Val::Int(v))
	}
	fn visit_i64<E: de::Error>(self, v: i64) -> Result<Val, E> {
		self.tick();
		Ok(Val::Long(v))
	}
	fn visit_u32<E: de::Error>(self, v: u32) -> Result<Val, E> {
		self.tick();
		Ok(Val::Long(v as i64))
	}
	fn visit_u64<E: de::Error>(self, v: u64) -> Result<Val, E> {
		self.tick();
		Ok(Val::Decimal { unscaled: v as i128, scale: 0 })
	}
	fn visit_i128<E: de::Error>(self, v: i128) -> Result<Val, E> {
		self.tick();
		Ok(Val::Decimal { unscaled: v, scale: 0 })
	}
	fn visit_f32<E: de::Error>(self, v: f32) -> Result<Val, E> {
		self.tick();
		Ok(Val::Float(v.to_bits()))
	}
	fn visit_f64<E: de::Error>(self, v: f64) -> Result<Val, E> {
		self.tick();
		Ok(Val::Double(v.to_bits()))
	}
	fn visit_str<E: de::Error>(self, v: &str) -> Result<Val, E> {
		self.tick();
		if BLIND_REJECTS_LEAVES.with(|b| b.get()) {
			return Err(if v.len() % 2 == 0 { E::invalid_type(de::Unexpected::Str(v), &"a number") } else { E::unknown_variant(v, &["Red", "Green"]) });
		}
		Ok(Val::Str(v.to_owned()))
	}
	fn visit_bytes<E: de::Error>(self, v: &[u8]) -> Result<Val, E> {
		self.tick();
		if BLIND_REJECTS_LEAVES.with(|b| b.get()) {
			return Err(E::invalid_type(de::Unexpected::Bytes(v), &"a number"));
		}
		Ok(Val::Bytes(v.to_vec()))
	}
	fn visit_seq<A: SeqAccess<'de>>(self, mut seq: A) -> Result<Val, A::Error> {
		self.tick();
		let mut out = vec![];
		while let Some(v) = seq.next_element_seed(Blind { callbacks: self.callbacks })? {
			if out.len() > CAPTURE_ELEM_CAP {
				return Err(de::Error::custom("CAPTURE-LIMIT: more elements than the harness is willing to hold"));
			}
			out.push(v);
		}
		Ok(Val::Array(out))
	}
	fn visit_map<A: MapAccess<'de>>(self, mut map: A) -> Result<Val, A::Error> {
		self.tick();
		let mut out = vec![];
		while let Some(k) = map.next_key::<String>()? {
			let v = map.next_value_seed(Blind { callbacks: self.callbacks })?;
			out.push((k, v));
		}
		Ok(Val::Map(out))
	}
}

// ---------------------------------------------------------------------------------------------

/// Allocation-free target: folds what it sees into a hash
pub struct HashSeed<'a> {
	pub acc: &'a Cell<u64>,
	pub callbacks: &'a Cell<u64>,
}
impl<'a> HashSeed<'a> {
	fn mix(&self, tag: u8, bytes: &[u8]) {
		let mut h = crate::prng::Fnv(self.acc.get());
		h.bytes(&[tag]).bytes(bytes);
		self.acc.set(h.get());
		self.callbacks.set(self.callbacks.get() + 1);
	}
}
impl<'de, 'a> DeserializeSeed<'de> for HashSeed<'a> {
	type Value = ();
	fn deserialize<D: Deserializer<'de>>(self, d: D) -> Result<(), D::Error> {
		d.deserialize_any(self)
	}
}
impl<'de, 'a> Visitor<'de> for HashSeed<'a> {
	type Value = ();
	fn expecting(&self, f: &mut fmt::Formatter) -> fmt::Result {
		f.write_str("anything")
	}
	fn visit_unit<E: de::Error>(self) -> Result<(), E> {
		self.mix(0, &[]);
		Ok(())
	}
	fn visit_bool<E: de::Error>(self, v: bool) -> Result<(), E> {
		self.mix(1, &[v as u8]);
		Ok(())
	}
	fn visit_i32<E: de::Error>(self, v: i32) -> Result<(), E> {
		self.mix(2, &v.to_le_bytes());
		Ok(())
	}
	fn visit_i64<E: de::Error>(self, v: i64) -> Result<(), E> {
		self.mix(3, &v.to_le_bytes());
		Ok(())
	}
	fn visit_u32<E: de::Error>(self, v: u32) -> Result<(), E> {
		self.mix(4, &v.to_le_bytes());
		Ok(())
	}
	fn visit_u64<E: de::Error>(self, v: u64) -> Result<(), E> {
		self.mix(5, &v.to_le_bytes());
		Ok(())
	}
	fn visit_i128<E: de::Error>(self, v: i128) -> Result<(), E> {
		self.mix(6, &v.to_le_bytes());
		Ok(())
	}
	fn visit_f32<E: de::Error>(self, v: f32) -> Result<(), E> {
		self.mix(7, &v.to_bits().to_le_bytes());
		Ok(())
	}
	fn visit_f64<E: de::Error>(self, v: f64) -> Result<(), E> {
		self.mix(8, &v.to_bits().to_le_bytes());
		Ok(())
	}
	fn visit_str<E: de::Error>(self, v: &str) -> Result<(), E> {
		self.mix(9, v.as_bytes());
		Ok(())
	}
	fn visit_bytes<E: de::Error>(self, v: &[u8]) -> Result<(), E> {
		self.mix(10, v);
		Ok(())
	}
	fn visit_seq<A: SeqAccess<'de>>(self, mut seq: A) -> Result<(), A::Error> {
		self.mix(11, &[]);
		while seq
			.next_element_seed(HashSeed { acc: self.acc, callbacks: self.callbacks })?
			.is_some()
		{}
		Ok(())
	}
	fn visit_map<A: MapAccess<'de>>(self, mut map: A) -> Result<(), A::Error> {
		self.mix(12, &[]);
		while map
			.next_key_seed(HashSeed { acc: self.acc, callbacks: self.callbacks })?
			.is_some()
		{
			map.next_value_seed(HashSeed { acc: self.acc, callbacks: self.callbacks })?;
		}
		Ok(())
	}
}

/// `IgnoredAny` as a seed
/// `deserialize_ignored_any` with a visitor that behaves like serde's `IgnoredAny` (allocation-free, accepts anything,
/// drains sequences and maps) but counts every callback and gives up with a CAPTURE-LIMIT error after `cap` of them,
/// so that work dictated by a number in the input is observed as a count instead of as a hang.
#[derive(Clone, Copy)]
pub struct IgnoreSeed<'a> {
	pub callbacks: &'a Cell<u64>,
	pub cap: u64,
}
impl<'a> IgnoreSeed<'a> {
	fn tick<E: de::Error>(&self) -> Result<(), E> {
		let n = self.callbacks.get() + 1;
		self.callbacks.set(n);
		if n > self.cap {
			Err(E::custom("CAPTURE-LIMIT: more callbacks than the harness is willing to take while ignoring"))
		} else {
			Ok(())
		}
	}
}
impl<'de, 'a> DeserializeSeed<'de> for IgnoreSeed<'a> {
	type Value = ();
	fn deserialize<D: Deserializer<'de>>(self, d: D) -> Result<(), D::Error> {
		d.deserialize_ignored_any(self)
	}
}
macro_rules! ignore_scalar {
	($($f:ident: $t:ty),*) => {$(
		fn $f<E: de::Error>(self, _: $t) -> Result<(), E> { self.tick() }
	)*};
}
impl<'de, 'a> Visitor<'de> for IgnoreSeed<'a> {
	type Value = ();
	fn expecting(&self, f: &mut fmt::Formatter) -> fmt::Result {
		f.write_str("anything at all")
	}
	ignore_scalar!(visit_bool: bool, visit_i64: i64, visit_i128: i128, visit_u64: u64, visit_u128: u128, visit_f64: f64, visit_str: &str, visit_bytes: &[u8]);
	fn visit_none<E: de::Error>(self) -> Result<(), E> {
		self.tick()
	}
	fn visit_unit<E: de::Error>(self) -> Result<(), E> {
		self.tick()
	}
	fn visit_some<D: Deserializer<'de>>(self, d: D) -> Result<(), D::Error> {
		self.tick()?;
		self.deserialize(d)
	}
	fn visit_newtype_struct<D: Deserializer<'de>>(self, d: D) -> Result<(), D::Error> {
		self.tick()?;
		self.deserialize(d)
	}
	fn visit_seq<A: SeqAccess<'de>>(self, mut seq: A) -> Result<(), A::Error> {
		self.tick()?;
		while let Some(()) = seq.next_element_seed(self)? {
			self.tick()?;
		}
		Ok(())
	}
	fn visit_map<A: MapAccess<'de>>(self, mut map: A) -> Result<(), A::Error> {
		self.tick()?;
		while let Some(()) = map.next_key_seed(self)? {
			self.tick()?;
			map.next_value_seed(self)?;
		}
		Ok(())
	}
	fn visit_enum<A: de::EnumAccess<'de>>(self, data: A) -> Result<(), A::Error> {
		use serde::de::VariantAccess;
		self.tick()?;
		data.variant_seed(self)?.1.newtype_variant_seed(self)
	}
}
