//! Reference object-container-file parser and writer, written from the Avro specification.
//! Block payloads are (de)compressed with the codec libraries' own stream / one-shot APIs; the
//! crate under test is not used here.

use crate::ast::{Env, Ty};
use crate::ref_datum::{self, write_varint_raw, zigzag, Decoder, Layout};
use crate::val::Val;
use serde_derive::{Deserialize, Serialize};
use std::io::{Read, Write};

#[derive(Clone, Copy, Debug, PartialEq, Eq, Serialize, Deserialize, Hash)]
pub enum Codec {
	Null,
	/// level 0 = library default
	Deflate(u8),
	Bzip2(u8),
	Snappy,
	Xz(u8),
	Zstd(u8),
}
impl Codec {
	pub fn name(&self) -> &'static str {
		match self {
			Codec::Null => "null",
			Codec::Deflate(_) => "deflate",
			Codec::Bzip2(_) => "bzip2",
			Codec::Snappy => "snappy",
			Codec::Xz(_) => "xz",
			Codec::Zstd(_) => "zstandard",
		}
	}
	pub fn idx(&self) -> u64 {
		match self {
			Codec::Null => 0,
			Codec::Deflate(_) => 1,
			Codec::Bzip2(_) => 2,
			Codec::Snappy => 3,
			Codec::Xz(_) => 4,
			Codec::Zstd(_) => 5,
		}
	}
	pub fn level(&self) -> u8 {
		match self {
			Codec::Deflate(l) | Codec::Bzip2(l) | Codec::Xz(l) | Codec::Zstd(l) => *l,
			_ => 0,
		}
	}
	pub fn from_name(n: &str) -> Option<Codec> {
		Some(match n {
			"null" => Codec::Null,
			"deflate" => Codec::Deflate(0),
			"bzip2" => Codec::Bzip2(0),
			"snappy" => Codec::Snappy,
			"xz" => Codec::Xz(0),
			"zstandard" => Codec::Zstd(0),
			_ => return None,
		})
	}
}

#[derive(Clone, Debug)]
pub struct PBlock {
	pub count: u64,
	/// offset of the block's first byte (count varint) in the file
	pub off: usize,
	pub count_len: usize,
	pub size_len: usize,
	/// declared size = length of the codec-framed payload
	pub size: usize,
	pub payload_off: usize,
	pub sync_off: usize,
	/// decompressed data
	pub data: Vec<u8>,
}

#[derive(Clone, Debug)]
pub struct Parsed {
	pub meta: Vec<(String, Vec<u8>)>,
	pub codec: Codec,
	pub codec_key_present: bool,
	pub schema_json: String,
	pub sync: [u8; 16],
	pub header_len: usize,
	pub blocks: Vec<PBlock>,
}

impl Parsed {
	pub fn user_meta(&self) -> Vec<(String, Vec<u8>)> {
		self.meta
			.iter()
			.filter(|(k, _)| k != "avro.schema" && k != "avro.codec")
			.cloned()
			.collect()
	}
	pub fn total_count(&self) -> u64 {
		self.blocks.iter().map(|b| b.count).sum()
	}
	pub fn decode_values(&self, env: &Env, ty: &Ty) -> Result<Vec<Val>, String> {
		let mut out = vec![];
		for (i, b) in self.blocks.iter().enumerate() {
			if b.count > 50_000_000 {
				return Err(format!("block {i}: absurd object count {}", b.count));
			}
			let vals = ref_datum::decode_many(env, ty, &b.data, b.count as usize).map_err(|e| format!("block {i}: {e}"))?;
			out.extend(vals);
		}
		Ok(out)
	}
}

pub fn decompress(codec: Codec, payload: &[u8]) -> Result<Vec<u8>, String> {
	let mut out = vec![];
	match codec {
		Codec::Null => out.extend_from_slice(payload),
		Codec::Deflate(_) => {
			// raw RFC 1951 stream (a zlib header would fail here)
			let mut d = flate2::bufread::DeflateDecoder::new(payload);
			d.read_to_end(&mut out).map_err(|e| format!("deflate: {e}"))?;
			let rest = d.into_inner();
			if !rest.is_empty() {
				return Err(format!("deflate: {} bytes of the payload are not part of the stream", rest.len()));
			}
		}
		Codec::Bzip2(_) => {
			let mut d = bzip2::bufread::BzDecoder::new(payload);
			d.read_to_end(&mut out).map_err(|e| format!("bzip2: {e}"))?;
			let rest = d.into_inner();
			if !rest.is_empty() {
				return Err(format!("bzip2: {} bytes of the payload are not part of the stream", rest.len()));
			}
		}
		Codec::Snappy => {
			if payload.len() < 4 {
				return Err("snappy: payload shorter than the 4-byte CRC".into());
			}
			let (body, crc) = payload.split_at(payload.len() - 4);
			out = snap::raw::Decoder::new().decompress_vec(body).map_err(|e| format!("snappy: {e}"))?;
			let expected = u32::from_be_bytes(crc.try_into().unwrap());
			let actual = crc32fast::hash(&out);
			if expected != actual {
				return Err(format!("snappy: CRC-32 (big-endian, of uncompressed data) mismatch: stored {expected:08x}, computed {actual:08x}"));
			}
		}
		Codec::Xz(_) => {
			let mut d = xz2::bufread::XzDecoder::new(payload);
			d.read_to_end(&mut out).map_err(|e| format!("xz: {e}"))?;
			let rest = d.into_inner();
			if !rest.is_empty() {
				return Err(format!("xz: {} bytes of the payload are not part of the stream", rest.len()));
			}
		}
		Codec::Zstd(_) => {
			let mut d = zstd::stream::read::Decoder::with_buffer(payload).map_err(|e| format!("zstd: {e}"))?.single_frame();
			d.read_to_end(&mut out).map_err(|e| format!("zstd: {e}"))?;
			let rest = d.finish();
			if !rest.is_empty() {
				return Err(format!("zstd: {} bytes of the payload are not part of the frame", rest.len()));
			}
		}
	}
	Ok(out)
}

pub fn compress(codec: Codec, data: &[u8]) -> Vec<u8> {
	match codec {
		Codec::Null => data.to_vec(),
		Codec::Deflate(l) => {
			let lvl = if l == 0 { flate2::Compression::default() } else { flate2::Compression::new(l.min(9) as u32) };
			let mut e = flate2::write::DeflateEncoder::new(Vec::new(), lvl);
			e.write_all(data).unwrap();
			e.finish().unwrap()
		}
		Codec::Bzip2(l) => {
			let lvl = if l == 0 { bzip2::Compression::default() } else { bzip2::Compression::new(l.min(9) as u32) };
			let mut e = bzip2::write::BzEncoder::new(Vec::new(), lvl);
			e.write_all(data).unwrap();
			e.finish().unwrap()
		}
		Codec::Snappy => {
			let mut out = snap::raw::Encoder::new().compress_vec(data).unwrap();
			out.extend_from_slice(&crc32fast::hash(data).to_be_bytes());
			out
		}
		Codec::Xz(l) => {
			let mut e = xz2::write::XzEncoder::new(Vec::new(), if l == 0 { 6 } else { l.min(9) as u32 });
			e.write_all(data).unwrap();
			e.finish().unwrap()
		}
		Codec::Zstd(l) => zstd::stream::encode_all(data, if l == 0 { 0 } else { l.min(19) as i32 }).unwrap(),
	}
}

/// Strict parse: anything that is not a complete, well-formed file is an error (with an offset)
pub fn parse(bytes: &[u8]) -> Result<Parsed, String> {
	let env = Env { defs: vec![] };
	let mut d = Decoder::new(&env, bytes);
	if bytes.len() < 4 || &bytes[0..4] != b"Obj\x01" {
		return Err("offset 0: magic is not 'Obj\\x01'".into());
	}
	d.pos = 4;
	let at = |d: &Decoder, e: String| format!("offset {}: {e}", d.pos);
	// metadata: map<bytes>
	let mut meta: Vec<(String, Vec<u8>)> = vec![];
	loop {
		let mut count = d.long().map_err(|e| at(&d, e))?;
		if count == 0 {
			break;
		}
		if count < 0 {
			count = count.checked_neg().ok_or_else(|| at(&d, "metadata block count overflow".into()))?;
			let size = d.long().map_err(|e| at(&d, e))?;
			if size < 0 {
				return Err(at(&d, "negative metadata block size".into()));
			}
		}
		if count as usize > bytes.len() {
			return Err(at(&d, "metadata block count larger than the file".into()));
		}
		for _ in 0..count {
			let kl = d.long().map_err(|e| at(&d, e))?;
			if kl < 0 || kl as usize > bytes.len() - d.pos {
				return Err(at(&d, "bad metadata key length".into()));
			}
			let k = String::from_utf8(bytes[d.pos..d.pos + kl as usize].to_vec()).map_err(|_| at(&d, "metadata key is not utf-8".into()))?;
			d.pos += kl as usize;
			let vl = d.long().map_err(|e| at(&d, e))?;
			if vl < 0 || vl as usize > bytes.len() - d.pos {
				return Err(at(&d, "bad metadata value length".into()));
			}
			let v = bytes[d.pos..d.pos + vl as usize].to_vec();
			d.pos += vl as usize;
			if meta.iter().any(|(k2, _)| *k2 == k) {
				return Err(at(&d, format!("duplicate metadata key {k:?}")));
			}
			meta.push((k, v));
		}
	}
	let schema_json = match meta.iter().find(|(k, _)| k == "avro.schema") {
		Some((_, v)) => String::from_utf8(v.clone()).map_err(|_| "avro.schema is not utf-8".to_string())?,
		None => return Err("metadata lacks avro.schema".into()),
	};
	let (codec, codec_key_present) = match meta.iter().find(|(k, _)| k == "avro.codec") {
		Some((_, v)) => {
			let n = std::str::from_utf8(v).map_err(|_| "avro.codec is not utf-8".to_string())?;
			(Codec::from_name(n).ok_or_else(|| format!("unknown codec name {n:?}"))?, true)
		}
		None => (Codec::Null, false),
	};
	if bytes.len() - d.pos < 16 {
		return Err(at(&d, "file ends inside the header sync marker".into()));
	}
	let sync: [u8; 16] = bytes[d.pos..d.pos + 16].try_into().unwrap();
	d.pos += 16;
	let header_len = d.pos;
	let mut blocks = vec![];
	while d.pos < bytes.len() {
		let off = d.pos;
		let count = d.long().map_err(|e| at(&d, format!("block {}: count: {e}", blocks.len())))?;
		let count_len = d.pos - off;
		let p1 = d.pos;
		let size = d.long().map_err(|e| at(&d, format!("block {}: size: {e}", blocks.len())))?;
		let size_len = d.pos - p1;
		if count < 0 {
			return Err(at(&d, format!("block {}: negative object count {count}", blocks.len())));
		}
		if size < 0 || size as u64 > (bytes.len() - d.pos) as u64 {
			return Err(at(&d, format!("block {}: size {size} exceeds the rest of the file", blocks.len())));
		}
		let size = size as usize;
		let payload_off = d.pos;
		let payload = &bytes[d.pos..d.pos + size];
		d.pos += size;
		if bytes.len() - d.pos < 16 {
			return Err(at(&d, format!("block {}: file ends inside the sync marker", blocks.len())));
		}
		let sync_off = d.pos;
		if bytes[d.pos..d.pos + 16] != sync {
			return Err(at(&d, format!("block {}: sync marker differs from the header's", blocks.len())));
		}
		d.pos += 16;
		let data = decompress(codec, payload).map_err(|e| format!("block {} (offset {payload_off}): {e}", blocks.len()))?;
		blocks.push(PBlock {
			count: count as u64,
			off,
			count_len,
			size_len,
			size,
			payload_off,
			sync_off,
			data,
		});
	}
	Ok(Parsed {
		meta,
		codec,
		codec_key_present,
		schema_json,
		sync,
		header_len,
		blocks,
	})
}

/// Free choices of a conforming writer
#[derive(Clone, Debug, PartialEq, Eq, Serialize, Deserialize, Default)]
pub struct WriteOpts {
	pub seed: u64,
	/// number of values per block (cycled); empty = everything in one block
	pub partition: Vec<usize>,
	/// put avro.codec before avro.schema, user keys in between, ...
	pub meta_order_seed: u64,
	pub omit_codec_key: bool,
	/// metadata map written as several map blocks / with a negative count + byte size
	pub meta_split: bool,
	pub meta_negative_count: bool,
	pub datum_layout: Layout,
	/// emit blocks that hold zero objects
	pub empty_blocks: bool,
	/// a run of this many consecutive blocks holding zero objects, after the first data block (or alone, in a file
	/// without values)
	#[serde(default)]
	pub empty_run: u32,
}

fn put_long(out: &mut Vec<u8>, v: i64) {
	write_varint_raw(out, zigzag(v), 0);
}
fn put_bytes(out: &mut Vec<u8>, b: &[u8]) {
	put_long(out, b.len() as i64);
	out.extend_from_slice(b);
}

pub fn write(
	env: &Env,
	ty: &Ty,
	schema_json: &str,
	codec: Codec,
	sync: [u8; 16],
	user_meta: &[(String, Vec<u8>)],
	values: &[Val],
	opts: &WriteOpts,
) -> Result<Vec<u8>, String> {
	let mut out = b"Obj\x01".to_vec();
	let mut entries: Vec<(String, Vec<u8>)> = vec![("avro.schema".into(), schema_json.as_bytes().to_vec())];
	if !(opts.omit_codec_key && codec == Codec::Null) {
		entries.push(("avro.codec".into(), codec.name().as_bytes().to_vec()));
	}
	entries.extend(user_meta.iter().cloned());
	let mut r = crate::prng::Rng::from_seed(opts.meta_order_seed);
	if opts.meta_order_seed != 0 {
		r.shuffle(&mut entries);
	}
	// metadata map
	let mut i = 0;
	while i < entries.len() {
		let n = if opts.meta_split { 1 + r.usize(entries.len() - i) } else { entries.len() - i };
		let mut body = vec![];
		for (k, v) in &entries[i..i + n] {
			put_bytes(&mut body, k.as_bytes());
			put_bytes(&mut body, v);
		}
		if opts.meta_negative_count {
			put_long(&mut out, -(n as i64));
			put_long(&mut out, body.len() as i64);
		} else {
			put_long(&mut out, n as i64);
		}
		out.extend_from_slice(&body);
		i += n;
	}
	put_long(&mut out, 0);
	out.extend_from_slice(&sync);
	// blocks
	let mut i = 0;
	let mut pi = 0;
	let mut layout = opts.datum_layout;
	let mut run_emitted = false;
	let emit_empty_run = |out: &mut Vec<u8>| {
		if opts.empty_run > 0 {
			let payload = compress(codec, &[]);
			for _ in 0..opts.empty_run {
				put_long(out, 0);
				put_long(out, payload.len() as i64);
				out.extend_from_slice(&payload);
				out.extend_from_slice(&sync);
			}
		}
	};
	while i < values.len() {
		let n = if opts.partition.is_empty() {
			values.len() - i
		} else {
			let n = opts.partition[pi % opts.partition.len()].max(1).min(values.len() - i);
			pi += 1;
			n
		};
		if opts.empty_blocks && pi % 3 == 1 {
			let payload = compress(codec, &[]);
			put_long(&mut out, 0);
			put_long(&mut out, payload.len() as i64);
			out.extend_from_slice(&payload);
			out.extend_from_slice(&sync);
		}
		let mut data = vec![];
		for v in &values[i..i + n] {
			layout.seed = layout.seed.wrapping_add(0x9E37_79B9);
			let (b, _) = ref_datum::encode(env, ty, v, layout)?;
			data.extend_from_slice(&b);
		}
		let payload = compress(codec, &data);
		put_long(&mut out, n as i64);
		put_long(&mut out, payload.len() as i64);
		out.extend_from_slice(&payload);
		out.extend_from_slice(&sync);
		i += n;
		if !run_emitted {
			run_emitted = true;
			emit_empty_run(&mut out);
		}
	}
	if !run_emitted {
		emit_empty_run(&mut out);
	}
	Ok(out)
}
