//! avrosim — deterministic simulation with fault injection for serde_avro_fast.
//! See /verif/DESIGN.md.

mod apache;
mod ast;
mod capture;
mod container;
mod crc64;
mod prng;
mod props;
mod ref_container;
mod ref_datum;
mod runner;
mod simalloc;
mod simio;
mod tls;
mod val;
mod world;

use runner::{Prop, Tier};

#[global_allocator]
static GLOBAL: simalloc::SimAlloc = simalloc::SimAlloc;

fn tier_of(s: &str) -> Tier {
	match s {
		"quick" => Tier::Quick,
		"thorough" => Tier::Thorough,
		other => {
			eprintln!("HARNESS-ERROR: unknown tier {other}");
			std::process::exit(2);
		}
	}
}

fn dispatch<P: Prop>(p: P, args: &[String]) -> i32 {
	match args[0].as_str() {
		"check" => runner::run_check(&p, tier_of(&args[2])),
		"replay" => runner::run_replay(&p, &args[2]),
		"digest" => runner::run_digest(&p, tier_of(&args[2]), args[3].parse().unwrap_or(0)),
		"worker" => runner::run_worker(
			&p,
			tier_of(&args[2]),
			args[3].parse().unwrap(),
			args[4].parse().unwrap(),
			args[5].parse().unwrap(),
			&args[6],
		),
		other => {
			eprintln!("HARNESS-ERROR: unknown command {other}");
			2
		}
	}
}

fn main() {
	runner::install_panic_hook();
	let args: Vec<String> = std::env::args().skip(1).collect();
	if args.len() < 3 {
		eprintln!("usage: avrosim check <ID> <quick|thorough> | replay <ID> <file>");
		std::process::exit(2);
	}
	let code = match args[1].as_str() {
		"C04" => dispatch(props::c04::C04, &args),
		"C05" => dispatch(props::c05::C05, &args),
		"C06" => dispatch(props::c06::C06, &args),
		"C11" => dispatch(props::c11::C11, &args),
		"C14" => dispatch(props::c14::C14, &args),
		"C15" => dispatch(props::c15::C15, &args),
		"C16" => dispatch(props::c16::C16, &args),
		"C17" => dispatch(props::c17::C17, &args),
		"C18" => dispatch(props::c18::C18, &args),
		other => {
			eprintln!("HARNESS-ERROR: no check for property {other}");
			2
		}
	};
	std::process::exit(code);
}
