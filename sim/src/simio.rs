//! The simulated environment: `SimSource` (`Read + BufRead`) and `SimSink` (`Write`).
//! Every refill size, accept size and fault comes from an explicit plan stored in the scenario;
//! nothing here draws randomness or reads a clock.

use crate::prng::Fnv;
use serde_derive::{Deserialize, Serialize};
use std::cell::RefCell;
use std::io;
use std::rc::Rc;

#[derive(Clone, Copy, Debug, PartialEq, Eq, Serialize, Deserialize, Hash)]
pub enum IoErrKind {
	Interrupted,
	Other,
	UnexpectedEof,
	BrokenPipe,
	StorageFull,
	/// what a non-blocking or timed-out descriptor reports: NOT `Interrupted` — nothing in std retries it
	WouldBlock,
	TimedOut,
}
impl IoErrKind {
	pub fn to_error(self) -> io::Error {
		let kind = match self {
			IoErrKind::Interrupted => io::ErrorKind::Interrupted,
			IoErrKind::Other => io::ErrorKind::Other,
			IoErrKind::UnexpectedEof => io::ErrorKind::UnexpectedEof,
			IoErrKind::BrokenPipe => io::ErrorKind::BrokenPipe,
			IoErrKind::StorageFull => io::ErrorKind::StorageFull,
			IoErrKind::WouldBlock => io::ErrorKind::WouldBlock,
			IoErrKind::TimedOut => io::ErrorKind::TimedOut,
		};
		io::Error::new(kind, "simulated I/O fault")
	}
}

#[derive(Clone, Debug, PartialEq, Eq, Serialize, Deserialize)]
pub enum RefillPlan {
	Whole,
	Fixed(usize),
	Cycle(Vec<usize>),
	/// absolute offsets at which a refill boundary is placed (sorted); between cuts: whole
	Cuts(Vec<usize>),
}
impl RefillPlan {
	pub fn label(&self) -> String {
		match self {
			RefillPlan::Whole => "whole".into(),
			RefillPlan::Fixed(k) => format!("fixed({k})"),
			RefillPlan::Cycle(v) => format!("cycle{v:?}"),
			RefillPlan::Cuts(v) => format!("cuts{v:?}"),
		}
	}
}

#[derive(Clone, Copy, Debug, PartialEq, Eq, Serialize, Deserialize)]
pub struct SourceFault {
	pub at_call: u64,
	pub kind: IoErrKind,
}

#[derive(Clone, Debug, Default)]
pub struct SourceStats {
	pub calls: u64,
	pub fill_calls: u64,
	pub read_calls: u64,
	pub refills: u64,
	pub faults_fired: u64,
	pub interrupted_fired: u64,
	pub digest: u64,
	pub contract_violations: Vec<String>,
	pub budget_exhausted: bool,
}

pub struct SimSource<'a> {
	data: &'a [u8],
	pos: usize,
	chunk_end: usize,
	plan: RefillPlan,
	plan_idx: usize,
	faults: Vec<SourceFault>,
	step_budget: u64,
	last_fill_len: usize,
	digest: Fnv,
	pub stats: SourceStats,
	/// mirror of `pos` that can be read while the source is mutably borrowed by a reader built on it
	pos_mirror: Option<std::rc::Rc<std::cell::Cell<usize>>>,
}

impl<'a> SimSource<'a> {
	/// a handle through which the number of bytes consumed so far can be read while a reader owns `&mut self`
	pub fn position_handle(&mut self) -> std::rc::Rc<std::cell::Cell<usize>> {
		let h = std::rc::Rc::new(std::cell::Cell::new(self.pos));
		self.pos_mirror = Some(h.clone());
		h
	}
	fn mirror(&self) {
		if let Some(h) = &self.pos_mirror {
			h.set(self.pos);
		}
	}
	pub fn new(data: &'a [u8], plan: RefillPlan) -> Self {
		let step_budget = 256 + 16 * data.len() as u64;
		SimSource {
			data,
			pos: 0,
			chunk_end: 0,
			plan,
			plan_idx: 0,
			faults: vec![],
			step_budget,
			last_fill_len: 0,
			digest: Fnv::new(),
			stats: SourceStats::default(),
			pos_mirror: None,
		}
	}
	pub fn with_faults(mut self, faults: Vec<SourceFault>) -> Self {
		self.faults = faults;
		self
	}
	pub fn with_step_budget(mut self, budget: u64) -> Self {
		self.step_budget = budget;
		self
	}
	/// bytes consumed so far
	pub fn position(&self) -> usize {
		self.pos
	}
	pub fn finish(mut self) -> SourceStats {
		self.stats.digest = self.digest.get();
		self.stats
	}
	pub fn stats_snapshot(&mut self) -> SourceStats {
		self.stats.digest = self.digest.get();
		self.stats.clone()
	}

	fn open_next_chunk(&mut self) {
		let remaining = self.data.len() - self.pos;
		if remaining == 0 {
			self.chunk_end = self.pos;
			return;
		}
		let size = match &self.plan {
			RefillPlan::Whole => remaining,
			RefillPlan::Fixed(k) => (*k).max(1),
			RefillPlan::Cycle(v) => {
				if v.is_empty() {
					remaining
				} else {
					let s = v[self.plan_idx % v.len()].max(1);
					self.plan_idx += 1;
					s
				}
			}
			RefillPlan::Cuts(cuts) => match cuts.iter().find(|&&c| c > self.pos) {
				Some(&c) => c - self.pos,
				None => remaining,
			},
		};
		self.chunk_end = self.pos + size.min(remaining);
		self.stats.refills += 1;
	}

	/// Returns Err if a fault fires at this call or the budget is gone
	fn on_call(&mut self, tag: u8) -> io::Result<()> {
		let call = self.stats.calls;
		self.stats.calls += 1;
		self.digest.bytes(&[tag]).u64(self.pos as u64);
		if self.stats.calls > self.step_budget {
			self.stats.budget_exhausted = true;
			return Err(io::Error::new(io::ErrorKind::Other, "simulated source: step budget exhausted"));
		}
		if let Some(f) = self.faults.iter().find(|f| f.at_call == call) {
			self.stats.faults_fired += 1;
			if f.kind == IoErrKind::Interrupted {
				self.stats.interrupted_fired += 1;
			}
			self.digest.bytes(&[0xEE, f.kind as u8]);
			return Err(f.kind.to_error());
		}
		Ok(())
	}
}

impl<'a> io::Read for SimSource<'a> {
	fn read(&mut self, buf: &mut [u8]) -> io::Result<usize> {
		self.stats.read_calls += 1;
		self.on_call(b'r')?;
		if buf.is_empty() {
			return Ok(0);
		}
		if self.pos == self.chunk_end {
			self.open_next_chunk();
		}
		let n = buf.len().min(self.chunk_end - self.pos);
		buf[..n].copy_from_slice(&self.data[self.pos..self.pos + n]);
		self.pos += n;
		self.mirror();
		self.last_fill_len = 0;
		self.digest.u64(n as u64);
		Ok(n)
	}
}

impl<'a> io::BufRead for SimSource<'a> {
	fn fill_buf(&mut self) -> io::Result<&[u8]> {
		self.stats.fill_calls += 1;
		self.on_call(b'f')?;
		if self.pos == self.chunk_end {
			self.open_next_chunk();
		}
		self.last_fill_len = self.chunk_end - self.pos;
		self.digest.u64(self.last_fill_len as u64);
		Ok(&self.data[self.pos..self.chunk_end])
	}
	fn consume(&mut self, amt: usize) {
		self.digest.bytes(&[b'c']).u64(amt as u64);
		if amt > self.chunk_end - self.pos {
			self.stats.contract_violations.push(format!(
				"consume({amt}) but only {} bytes were handed out by the last fill_buf (pos {})",
				self.chunk_end - self.pos,
				self.pos
			));
			self.pos = self.chunk_end;
		} else {
			self.pos += amt;
		}
		self.mirror();
	}
}

// ---------------------------------------------------------------------------------------------

#[derive(Clone, Debug, PartialEq, Eq, Serialize, Deserialize)]
pub enum AcceptPlan {
	All,
	Fixed(usize),
	Cycle(Vec<usize>),
	/// (vectored sinks) accept exactly the first `n` non-empty slices of each call, whole: every short write ends
	/// on a slice boundary
	WholeSlices(usize),
}
impl AcceptPlan {
	pub fn label(&self) -> String {
		match self {
			AcceptPlan::All => "all".into(),
			AcceptPlan::Fixed(k) => format!("fixed({k})"),
			AcceptPlan::Cycle(v) => format!("cycle{v:?}"),
			AcceptPlan::WholeSlices(n) => format!("whole-slices({n})"),
		}
	}
}

#[derive(Clone, Copy, Debug, PartialEq, Eq, Serialize, Deserialize, Hash)]
pub enum SinkFaultKind {
	Interrupted,
	Hard(IoErrKind),
	/// `Ok(0)`
	Zero,
}

#[derive(Clone, Copy, Debug, PartialEq, Eq, Serialize, Deserialize)]
pub struct SinkFault {
	pub at_call: u64,
	pub kind: SinkFaultKind,
}

#[derive(Clone, Debug, PartialEq, Eq)]
pub enum SinkCallResult {
	Accepted(usize),
	Interrupted,
	Hard,
	Zero,
	BudgetExhausted,
}

#[derive(Clone, Debug)]
pub struct SinkCall {
	pub vectored: bool,
	pub offered: Vec<usize>,
	pub result: SinkCallResult,
	/// bytes accepted before this call
	pub at_offset: usize,
}

#[derive(Default, Clone, Debug)]
pub struct SinkStats {
	pub calls: u64,
	pub vectored_calls: u64,
	pub partial_accepts: u64,
	pub cross_slice_partial: u64,
	pub interrupted_fired: u64,
	pub hard_fired: u64,
	pub zero_fired: u64,
	pub flushes: u64,
	pub budget_exhausted: bool,
	/// bytes accepted at the moment the first hard error / zero-accept fired
	pub len_at_first_hard_fault: Option<usize>,
}

pub struct SinkState {
	pub accepted: Vec<u8>,
	plan: AcceptPlan,
	plan_idx: usize,
	faults: Vec<SinkFault>,
	/// every call whose index is `phase` modulo `period` reports `Interrupted` (period >= 2: the retry goes through)
	interrupt_every: Option<(u64, u64)>,
	/// implements `write_vectored` itself (accepting across slice boundaries); otherwise only the
	/// first non-empty slice is written, like the default method does
	vectored: bool,
	/// stays broken after the first hard error
	stay_broken: bool,
	broken: bool,
	step_budget: u64,
	digest: Fnv,
	pub stats: SinkStats,
	pub log: Vec<SinkCall>,
	keep_log: bool,
}

#[derive(Clone)]
pub struct SimSink(pub Rc<RefCell<SinkState>>);

impl SimSink {
	pub fn new(plan: AcceptPlan, vectored: bool) -> Self {
		SimSink(Rc::new(RefCell::new(SinkState {
			accepted: vec![],
			plan,
			plan_idx: 0,
			faults: vec![],
			interrupt_every: None,
			vectored,
			stay_broken: false,
			broken: false,
			step_budget: u64::MAX,
			digest: Fnv::new(),
			stats: SinkStats::default(),
			log: vec![],
			keep_log: false,
		})))
	}
	pub fn all() -> Self {
		Self::new(AcceptPlan::All, true)
	}
	pub fn with_interrupt_every(self, period: u64, phase: u64) -> Self {
		assert!(period >= 2, "HARNESS: a sink that interrupts every call never makes progress");
		self.0.borrow_mut().interrupt_every = Some((period, phase % period));
		self
	}
	pub fn with_faults(self, faults: Vec<SinkFault>) -> Self {
		self.0.borrow_mut().faults = faults;
		self
	}
	pub fn with_step_budget(self, b: u64) -> Self {
		self.0.borrow_mut().step_budget = b;
		self
	}
	pub fn stay_broken(self, v: bool) -> Self {
		self.0.borrow_mut().stay_broken = v;
		self
	}
	pub fn keep_log(self) -> Self {
		self.0.borrow_mut().keep_log = true;
		self
	}
	pub fn accepted(&self) -> Vec<u8> {
		self.0.borrow().accepted.clone()
	}
	pub fn accepted_len(&self) -> usize {
		self.0.borrow().accepted.len()
	}
	pub fn stats(&self) -> SinkStats {
		self.0.borrow().stats.clone()
	}
	pub fn digest(&self) -> u64 {
		self.0.borrow().digest.get()
	}
	pub fn calls(&self) -> u64 {
		self.0.borrow().stats.calls
	}
}

impl SinkState {
	fn quota(&mut self) -> usize {
		match &self.plan {
			AcceptPlan::All | AcceptPlan::WholeSlices(_) => usize::MAX,
			AcceptPlan::Fixed(k) => (*k).max(1),
			AcceptPlan::Cycle(v) => {
				if v.is_empty() {
					usize::MAX
				} else {
					let s = v[self.plan_idx % v.len()].max(1);
					self.plan_idx += 1;
					s
				}
			}
		}
	}

	fn write_slices(&mut self, bufs: &[&[u8]], vectored_call: bool) -> io::Result<usize> {
		let call = self.stats.calls;
		self.stats.calls += 1;
		if vectored_call {
			self.stats.vectored_calls += 1;
		}
		let at_offset = self.accepted.len();
		let offered: Vec<usize> = bufs.iter().map(|b| b.len()).collect();
		self.digest.bytes(&[b'w', vectored_call as u8]);
		for o in &offered {
			self.digest.u64(*o as u64);
		}
		let mut record = |st: &mut SinkState, result: SinkCallResult| {
			if st.keep_log && st.log.len() < 4096 {
				st.log.push(SinkCall {
					vectored: vectored_call,
					offered: offered.clone(),
					result,
					at_offset,
				});
			}
		};
		if self.stats.calls > self.step_budget {
			self.stats.budget_exhausted = true;
			record(self, SinkCallResult::BudgetExhausted);
			return Err(io::Error::new(io::ErrorKind::Other, "simulated sink: step budget exhausted"));
		}
		if self.broken {
			record(self, SinkCallResult::Hard);
			return Err(IoErrKind::BrokenPipe.to_error());
		}
		if let Some((period, phase)) = self.interrupt_every {
			if call % period == phase {
				self.digest.bytes(&[0xED]);
				self.stats.interrupted_fired += 1;
				record(self, SinkCallResult::Interrupted);
				return Err(IoErrKind::Interrupted.to_error());
			}
		}
		if let Some(f) = self.faults.iter().find(|f| f.at_call == call).copied() {
			self.digest.bytes(&[0xEE]);
			match f.kind {
				SinkFaultKind::Interrupted => {
					self.stats.interrupted_fired += 1;
					record(self, SinkCallResult::Interrupted);
					return Err(IoErrKind::Interrupted.to_error());
				}
				SinkFaultKind::Hard(k) => {
					self.stats.hard_fired += 1;
					self.stats.len_at_first_hard_fault.get_or_insert(at_offset);
					if self.stay_broken {
						self.broken = true;
					}
					record(self, SinkCallResult::Hard);
					return Err(k.to_error());
				}
				SinkFaultKind::Zero => {
					self.stats.zero_fired += 1;
					self.stats.len_at_first_hard_fault.get_or_insert(at_offset);
					record(self, SinkCallResult::Zero);
					return Ok(0);
				}
			}
		}
		let total: usize = bufs.iter().map(|b| b.len()).sum();
		let quota = match &self.plan {
			AcceptPlan::WholeSlices(n) => bufs.iter().filter(|b| !b.is_empty()).take((*n).max(1)).map(|b| b.len()).sum::<usize>().max(1),
			_ => self.quota(),
		};
		let n = quota.min(total);
		let mut left = n;
		let mut slices_touched = 0;
		for b in bufs {
			if left == 0 {
				break;
			}
			if b.is_empty() {
				continue;
			}
			let k = left.min(b.len());
			self.accepted.extend_from_slice(&b[..k]);
			left -= k;
			slices_touched += 1;
		}
		if n < total {
			self.stats.partial_accepts += 1;
			if slices_touched > 1 || (bufs.iter().filter(|b| !b.is_empty()).count() > 1) {
				self.stats.cross_slice_partial += 1;
			}
		}
		self.digest.u64(n as u64);
		record(self, SinkCallResult::Accepted(n));
		Ok(n)
	}
}

impl io::Write for SimSink {
	fn write(&mut self, buf: &[u8]) -> io::Result<usize> {
		self.0.borrow_mut().write_slices(&[buf], false)
	}
	fn write_vectored(&mut self, bufs: &[io::IoSlice<'_>]) -> io::Result<usize> {
		let mut st = self.0.borrow_mut();
		if st.vectored {
			let slices: Vec<&[u8]> = bufs.iter().map(|b| &**b).collect();
			st.write_slices(&slices, true)
		} else {
			// what the default `write_vectored` does
			let first = bufs.iter().find(|b| !b.is_empty()).map_or(&[][..], |b| &**b);
			st.write_slices(&[first], false)
		}
	}
	fn flush(&mut self) -> io::Result<()> {
		self.0.borrow_mut().stats.flushes += 1;
		Ok(())
	}
}
