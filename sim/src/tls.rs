//! Entry points of the crate that take a `Deserialize` *type* rather than a seed
//! (`from_single_object_*`, `from_datum_*`): the seed context travels through a thread-local.

use crate::ast::{Env, Ty};
use crate::simio::SimSource;
use crate::val::Val;
use crate::world::{DecOut, Limits, ReaderKind, Target};
use serde_avro_fast::Schema;
use std::cell::Cell;

#[derive(Clone, Copy)]
struct TlsCtx {
	env: *const Env,
	ty: *const Ty,
	target: Target,
}

thread_local! {
	static CUR: Cell<Option<TlsCtx>> = const { Cell::new(None) };
	static STATS: Cell<(u64, u32)> = const { Cell::new((0, 0)) };
}

struct Guard;
impl Drop for Guard {
	fn drop(&mut self) {
		let _ = CUR.try_with(|c| c.set(None));
	}
}

pub fn with_ctx_pub<T>(env: &Env, ty: &Ty, target: Target, f: impl FnOnce() -> T) -> T {
	with_ctx(env, ty, target, f)
}

fn with_ctx<T>(env: &Env, ty: &Ty, target: Target, f: impl FnOnce() -> T) -> T {
	CUR.with(|c| {
		c.set(Some(TlsCtx {
			env: env as *const Env,
			ty: ty as *const Ty,
			target,
		}))
	});
	STATS.with(|s| s.set((0, 0)));
	let _g = Guard;
	f()
}

pub struct ViaTls(pub Val);

impl<'de> serde::Deserialize<'de> for ViaTls {
	fn deserialize<D: serde::Deserializer<'de>>(d: D) -> Result<Self, D::Error> {
		let ctx = CUR.with(|c| c.get()).expect("HARNESS: ViaTls used outside with_ctx");
		// SAFETY: pointers are set by `with_ctx` from references that outlive the call and cleared by its guard
		let (env, ty) = unsafe { (&*ctx.env, &*ctx.ty) };
		let (r, callbacks, depth) = crate::world::run_target_pub(ctx.target, env, ty, d);
		STATS.with(|s| s.set((callbacks, depth)));
		r.map(ViaTls)
	}
}

pub fn decode_single_object_slice(schema: &Schema, env: &Env, ty: &Ty, bytes: &[u8], target: Target, limits: Limits) -> DecOut {
	let r = with_ctx(env, ty, target, || serde_avro_fast::from_single_object_slice::<ViaTls>(bytes, schema));
	let (callbacks, max_depth) = STATS.with(|s| s.get());
	// `from_single_object_slice` does not tell how much it consumed: by definition it is the header plus what
	// the datum decoder consumes from the rest
	let consumed = if r.is_ok() && bytes.len() >= 10 {
		10 + crate::world::decode_slice(schema, env, ty, &bytes[10..], target, Limits { max_seq_size: 1_000_000_000, ..limits }).consumed
	} else {
		0
	};
	let io_error = r.as_ref().err().map_or(false, |e| e.io_error().is_some());
	DecOut {
		res: r.map(|v| v.0).map_err(|e| e.to_string()),
		consumed,
		callbacks,
		max_depth,
		io_error,
	}
}

pub fn decode_single_object_reader(
	schema: &Schema,
	env: &Env,
	ty: &Ty,
	bytes: &[u8],
	target: Target,
	_limits: Limits,
	kind: &ReaderKind,
) -> (DecOut, crate::simio::SourceStats) {
	match kind {
		ReaderKind::Direct(plan) => {
			let mut src = SimSource::new(bytes, plan.clone()).with_step_budget(crate::world::step_budget(bytes.len(), &Limits::sim_default()));
			let r = with_ctx(env, ty, target, || serde_avro_fast::from_single_object_reader::<_, ViaTls>(&mut src, schema));
			let (callbacks, max_depth) = STATS.with(|s| s.get());
			let io_error = r.as_ref().err().map_or(false, |e| e.io_error().is_some());
			(
				DecOut {
					res: r.map(|v| v.0).map_err(|e| e.to_string()),
					consumed: src.position(),
					callbacks,
					max_depth,
					io_error,
				},
				src.finish(),
			)
		}
		ReaderKind::BufReader { cap, plan } => {
			let mut src = SimSource::new(bytes, plan.clone()).with_step_budget(crate::world::step_budget(bytes.len(), &Limits::sim_default()));
			let mut br = std::io::BufReader::with_capacity((*cap).max(1), &mut src);
			let r = with_ctx(env, ty, target, || serde_avro_fast::from_single_object_reader::<_, ViaTls>(&mut br, schema));
			let buffered = br.buffer().len();
			drop(br);
			let (callbacks, max_depth) = STATS.with(|s| s.get());
			let io_error = r.as_ref().err().map_or(false, |e| e.io_error().is_some());
			(
				DecOut {
					res: r.map(|v| v.0).map_err(|e| e.to_string()),
					consumed: src.position() - buffered,
					callbacks,
					max_depth,
					io_error,
				},
				src.finish(),
			)
		}
	}
}
