//! The only source of randomness in the harness: SplitMix64 for seeding, xoshiro256** for streams.
//! One integer (VERIF_SEED) decides everything; run `i` of property `P` uses
//! `Rng::for_run(seed, P, i)`.

#[derive(Clone, Debug)]
pub struct Rng {
	s: [u64; 4],
}

pub fn splitmix(x: &mut u64) -> u64 {
	*x = x.wrapping_add(0x9E37_79B9_7F4A_7C15);
	let mut z = *x;
	z = (z ^ (z >> 30)).wrapping_mul(0xBF58_476D_1CE4_E5B9);
	z = (z ^ (z >> 27)).wrapping_mul(0x94D0_49BB_1331_11EB);
	z ^ (z >> 31)
}

pub fn fnv64(bytes: &[u8]) -> u64 {
	let mut h: u64 = 0xcbf2_9ce4_8422_2325;
	for &b in bytes {
		h ^= b as u64;
		h = h.wrapping_mul(0x0000_0100_0000_01B3);
	}
	h
}

/// Incremental FNV-64 hasher used for event-log digests and state signatures.
#[derive(Clone, Copy, Debug)]
pub struct Fnv(pub u64);
impl Default for Fnv {
	fn default() -> Self {
		Fnv(0xcbf2_9ce4_8422_2325)
	}
}
impl Fnv {
	pub fn new() -> Self {
		Self::default()
	}
	pub fn bytes(&mut self, bytes: &[u8]) -> &mut Self {
		for &b in bytes {
			self.0 ^= b as u64;
			self.0 = self.0.wrapping_mul(0x0000_0100_0000_01B3);
		}
		self
	}
	pub fn u64(&mut self, v: u64) -> &mut Self {
		self.bytes(&v.to_le_bytes())
	}
	pub fn str(&mut self, s: &str) -> &mut Self {
		self.bytes(s.as_bytes()).bytes(&[0xff])
	}
	pub fn get(&self) -> u64 {
		self.0
	}
}

impl Rng {
	pub fn from_seed(seed: u64) -> Self {
		let mut x = seed;
		let s = [
			splitmix(&mut x),
			splitmix(&mut x),
			splitmix(&mut x),
			splitmix(&mut x),
		];
		Rng { s }
	}
	pub fn for_run(seed: u64, prop: &str, run: u64) -> Self {
		let mut x = seed ^ fnv64(prop.as_bytes()).rotate_left(17) ^ run.wrapping_mul(0xD6E8_FEB8_6659_FD93);
		let mixed = splitmix(&mut x) ^ run;
		Self::from_seed(mixed)
	}
	pub fn next_u64(&mut self) -> u64 {
		let result = self.s[1].wrapping_mul(5).rotate_left(7).wrapping_mul(9);
		let t = self.s[1] << 17;
		self.s[2] ^= self.s[0];
		self.s[3] ^= self.s[1];
		self.s[1] ^= self.s[2];
		self.s[0] ^= self.s[3];
		self.s[2] ^= t;
		self.s[3] = self.s[3].rotate_left(45);
		result
	}
	/// uniform in 0..n (n > 0)
	pub fn below(&mut self, n: u64) -> u64 {
		debug_assert!(n > 0);
		// multiply-shift; bias is irrelevant here
		((self.next_u64() as u128 * n as u128) >> 64) as u64
	}
	pub fn usize(&mut self, n: usize) -> usize {
		self.below(n as u64) as usize
	}
	/// uniform in lo..=hi
	pub fn range(&mut self, lo: i64, hi: i64) -> i64 {
		debug_assert!(lo <= hi);
		let span = (hi as i128 - lo as i128 + 1) as u128;
		let r = ((self.next_u64() as u128 * span) >> 64) as i128;
		(lo as i128 + r) as i64
	}
	pub fn chance(&mut self, num: u64, den: u64) -> bool {
		self.below(den) < num
	}
	pub fn bool(&mut self) -> bool {
		self.next_u64() & 1 == 1
	}
	pub fn pick<'a, T>(&mut self, xs: &'a [T]) -> &'a T {
		&xs[self.usize(xs.len())]
	}
	pub fn bytes(&mut self, n: usize) -> Vec<u8> {
		let mut v = Vec::with_capacity(n);
		while v.len() < n {
			let w = self.next_u64().to_le_bytes();
			let take = (n - v.len()).min(8);
			v.extend_from_slice(&w[..take]);
		}
		v
	}
	pub fn shuffle<T>(&mut self, xs: &mut [T]) {
		for i in (1..xs.len()).rev() {
			let j = self.usize(i + 1);
			xs.swap(i, j);
		}
	}
	pub fn fork(&mut self) -> Rng {
		Rng::from_seed(self.next_u64())
	}
}
