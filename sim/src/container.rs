//! Container world: the real `WriterBuilder`/`Writer` writing into a `SimSink`, the real `Reader`
//! reading a slice or a `SimSource`, with the reference container model beside them.
//! Shared by C05, C06, C11 (container mode), C15, C16, C17.

use crate::ast::{self, Env, GenCfg, Ty};
use crate::capture::{CapCtx, Capture};
use crate::prng::{Fnv, Rng};
use crate::ref_container::{self, Codec, Parsed, WriteOpts};
use crate::ref_datum::{self, Layout};
use crate::runner::{catch, panic_site, Outcome};
use crate::simio::{RefillPlan, SimSink, SimSource, SinkFault, SourceFault, SourceStats};
use crate::val::{self, Poison, PoisonKind, PresCfg, PresCtx, Presented, Val, ValCfg};
use crate::world::{self, ReaderKind};
use serde_avro_fast::object_container_file_encoding::{Compression, CompressionLevel, Reader, WriterBuilder};
use serde_avro_fast::ser::SerializerConfig;
use serde_bytes::ByteBuf;
use serde_derive::{Deserialize, Serialize};
use std::collections::BTreeMap;

pub fn to_crate_compression(c: Codec) -> Compression {
	let lvl = |l: u8| if l == 0 { CompressionLevel::default() } else { CompressionLevel::new(l) };
	match c {
		Codec::Null => Compression::Null,
		Codec::Deflate(l) => Compression::Deflate { level: lvl(l) },
		Codec::Bzip2(l) => Compression::Bzip2 { level: lvl(l) },
		Codec::Snappy => Compression::Snappy,
		Codec::Xz(l) => Compression::Xz { level: lvl(l) },
		Codec::Zstd(l) => Compression::Zstandard { level: lvl(l) },
	}
}

#[derive(Clone, Debug, PartialEq, Serialize, Deserialize)]
pub enum Op {
	Serialize { val: Val, pres: PresCfg, poison: Option<Poison> },
	/// `Writer::serialize_all` over the items; it stops at the first item that fails
	SerializeAll { items: Vec<(Val, PresCfg, Option<Poison>)> },
	/// `bytes` schema only: a deterministic blob of `len` bytes (compact form of a large value)
	Blob { len: u32, seed: u64, compressible: bool },
	/// `push_serialized` of values pre-serialized by the real `to_datum`
	PushCrate { vals: Vec<Val> },
	/// `push_serialized` of values pre-serialized by the reference encoder
	PushRef { vals: Vec<Val>, layout: Layout },
	FinishBlock,
	/// compact form of a LONG history (expanded by `FileSpec::expanded` before anything runs): `n` small values drawn
	/// from `seed`, each through `serialize` (every `push_every`-th through `push_serialized`; every `poison_every`-th
	/// fails half-way), with a `finish_block` after every `finish_every` values (0 = never for each)
	Many {
		seed: u64,
		n: u32,
		finish_every: u32,
		push_every: u32,
		poison_every: u32,
		/// size pattern of the strings / bytes over the history (`val::gen_long_vals`)
		#[serde(default)]
		pattern: u8,
	},
}

/// probes: which large-scale features the values of a workload have
pub fn count_scale(spec: &FileSpec, out: &mut crate::runner::Outcome) {
	let mut classes = vec![];
	for op in &spec.ops {
		match op {
			Op::Serialize { val, .. } => val::scale_classes(val, &mut classes),
			Op::SerializeAll { items } => items.iter().for_each(|(v, _, _)| val::scale_classes(v, &mut classes)),
			Op::PushCrate { vals } | Op::PushRef { vals, .. } => vals.iter().for_each(|v| val::scale_classes(v, &mut classes)),
			Op::Blob { len, .. } => {
				if *len >= 8190 {
					classes.push("scale_field_of_8_kib_or_more");
				}
				if *len > 65536 {
					classes.push("scale_field_above_64_kib");
				}
				if *len > 8 * 1024 * 1024 {
					classes.push("scale_field_above_8_mib");
				}
			}
			Op::FinishBlock => {}
			Op::Many { n, .. } => {
				classes.push("long_history");
				if *n > 65_535 {
					classes.push("long_history_above_65535_values");
				}
			}
		}
	}
	if !spec.prelude.is_empty() && !spec.owned_config && !spec.via_write_all {
		classes.push("earlier_writers_on_the_same_configuration");
		if spec.prelude.iter().any(|p| matches!(p.fault, PreFault::RefuseHeader | PreFault::BadMetadata)) {
			classes.push("earlier_writer_failed_to_build");
		}
	}
	classes.sort_unstable();
	classes.dedup();
	for c in classes {
		out.count(c, 1);
	}
}

#[derive(Clone, Copy, Debug, PartialEq, Eq, Serialize, Deserialize)]
pub enum End {
	IntoInner,
	Drop,
}

#[derive(Clone, Debug, PartialEq, Serialize, Deserialize)]
pub struct FileSpec {
	pub schema: Ty,
	pub codec: Codec,
	pub approx_block_size: u32,
	pub sync: [u8; 16],
	pub user_meta: Vec<(String, Vec<u8>)>,
	pub ops: Vec<Op>,
	pub end: End,
	/// build the writer with `WriterBuilder::with_owned_config` instead of `WriterBuilder::new(&mut config)`
	#[serde(default)]
	pub owned_config: bool,
	/// use the free function `write_all(schema, compression, sink, iterator)` over the values of the
	/// Serialize / SerializeAll ops (default block size, no user metadata, RANDOM sync marker: the file's bytes
	/// are then run-dependent and stay out of digests; sizes and positions are not)
	#[serde(default)]
	pub via_write_all: bool,
	/// EARLIER writers on the same `SerializerConfig` (borrowed configuration only), run before this file's writer is
	/// built: whatever a writer leaves behind in the configuration — also one whose `build` failed, or that met a
	/// failing sink — must not show in the next file
	#[serde(default)]
	pub prelude: Vec<Prelude>,
}

#[derive(Clone, Copy, Debug, PartialEq, Eq, Serialize, Deserialize)]
pub enum PreFault {
	None,
	/// the sink refuses the first write (the file header): `build` returns Err
	RefuseHeader,
	/// user metadata that cannot be serialized as `map<bytes>`: `build_with_user_metadata` returns Err
	BadMetadata,
	/// the sink refuses the first block write; in builds WITHOUT debug assertions it stays broken while the writer is
	/// dropped (Drop swallows the failure there; with debug assertions Drop panics on purpose, so the sink heals)
	RefuseBlock,
}

#[derive(Clone, Copy, Debug, PartialEq, Serialize, Deserialize)]
pub struct Prelude {
	pub codec: Codec,
	pub approx_block_size: u32,
	pub seed: u64,
	pub n_vals: u8,
	pub end: End,
	pub fault: PreFault,
	pub with_user_meta: bool,
}

pub fn gen_prelude(rng: &mut Rng) -> Vec<Prelude> {
	(0..1 + rng.usize(2))
		.map(|_| Prelude {
			codec: gen_codec(rng, false),
			approx_block_size: *rng.pick(&[0u32, 1, 40, 64 * 1024]),
			seed: rng.next_u64(),
			n_vals: rng.below(5) as u8,
			end: if rng.bool() { End::IntoInner } else { End::Drop },
			fault: *rng.pick(&[PreFault::None, PreFault::None, PreFault::RefuseHeader, PreFault::BadMetadata, PreFault::RefuseBlock]),
			with_user_meta: rng.bool(),
		})
		.collect()
}

/// Run the earlier writers of `spec.prelude` on `config`. Nothing is asserted about THEIR files here (each shape is
/// some other scenario's main file); what matters is the state they leave in the configuration.
fn run_prelude(spec: &FileSpec, env: &Env, config: &mut SerializerConfig<'_>) {
	for (pi, p) in spec.prelude.iter().enumerate() {
		let vcfg = ValCfg { max_len: 4, max_depth: 3, budget: 14, str_boost: 0, scale: None };
		let mut r = Rng::from_seed(p.seed);
		let vals: Vec<Val> = (0..p.n_vals).map(|_| val::gen_val(&mut r, env, &spec.schema, &vcfg)).collect();
		let sink = match p.fault {
			PreFault::RefuseHeader => SimSink::all().with_faults(vec![SinkFault { at_call: 0, kind: crate::simio::SinkFaultKind::Hard(crate::simio::IoErrKind::Other) }]),
			PreFault::RefuseBlock => SimSink::all().with_faults(vec![SinkFault { at_call: 1, kind: crate::simio::SinkFaultKind::Hard(crate::simio::IoErrKind::BrokenPipe) }]).stay_broken(!cfg!(debug_assertions)),
			_ => SimSink::all(),
		};
		let _ = catch(|| {
			let b = WriterBuilder::new(config).compression(to_crate_compression(p.codec)).approx_block_size(p.approx_block_size).sync_marker([pi as u8 + 1; 16]);
			let built = if p.fault == PreFault::BadMetadata {
				// values that are not bytes: the header's metadata schema is map<bytes>
				let bad: BTreeMap<String, i32> = [("k".to_string(), 1)].into_iter().collect();
				b.build_with_user_metadata(sink.clone(), bad)
			} else if p.with_user_meta {
				let m: BTreeMap<String, ByteBuf> = [("earlier".to_string(), ByteBuf::from(vec![pi as u8; 5]))].into_iter().collect();
				b.build_with_user_metadata(sink.clone(), m)
			} else {
				b.build(sink.clone())
			};
			if let Ok(mut w) = built {
				for v in &vals {
					let ctx = PresCtx::new(env, PresCfg::plain(), None);
					let _ = w.serialize(Presented::new(v, &spec.schema, &ctx));
				}
				match p.end {
					End::IntoInner => {
						let _ = w.into_inner();
					}
					End::Drop => drop(w),
				}
			}
		});
	}
}

impl FileSpec {
	/// the spec with every `Op::Many` replaced by the individual calls it stands for (a pure function of the spec)
	pub fn expanded(&self) -> std::borrow::Cow<'_, FileSpec> {
		if !self.ops.iter().any(|o| matches!(o, Op::Many { .. })) {
			return std::borrow::Cow::Borrowed(self);
		}
		let env = Env::build(&self.schema);
		let mut ops = vec![];
		for op in &self.ops {
			match op {
				Op::Many { seed, n, finish_every, push_every, poison_every, pattern } => {
					let mut r = Rng::from_seed(*seed ^ 0x5bd1_e995);
					let vals = val::gen_long_vals(*seed, &env, &self.schema, *n, *pattern);
					for (i, v) in vals.into_iter().enumerate() {
						let i = i as u32;
						if *push_every > 0 && i % push_every == push_every - 1 {
							ops.push(Op::PushCrate { vals: vec![v] });
						} else {
							let poison = if *poison_every > 0 && i % poison_every == poison_every - 1 {
								Some(Poison { at_call: r.usize(6), kind: *r.pick(&[PoisonKind::Err, PoisonKind::WrongType]) })
							} else {
								None
							};
							ops.push(Op::Serialize { val: v, pres: PresCfg::plain(), poison });
						}
						if *finish_every > 0 && (i + 1) % finish_every == 0 {
							ops.push(Op::FinishBlock);
						}
					}
				}
				other => ops.push(other.clone()),
			}
		}
		std::borrow::Cow::Owned(FileSpec { ops, ..self.clone() })
	}
}

pub fn blob(len: u32, seed: u64, compressible: bool) -> Vec<u8> {
	let mut r = Rng::from_seed(seed);
	if compressible {
		// what the bytes ARE matters to the codecs (stored / raw / run-length blocks, compressed forms a few bytes
		// long): all zeros, one repeated byte, runs of drawn lengths, a short repeating pattern
		match seed % 8 {
			0 => vec![0u8; len as usize],
			1 => vec![*r.pick(&[0xFFu8, 0x80, 0x01, b'a']); len as usize],
			2 => {
				let mut out = Vec::with_capacity(len as usize);
				while out.len() < len as usize {
					let span = *r.pick(&[3usize, 40, 700, 9000]);
					let run = 1 + r.usize(span);
					let b = r.next_u64() as u8;
					let run = run.min(len as usize - out.len());
					out.extend(std::iter::repeat(b).take(run));
				}
				out
			}
			_ => {
				let n = 1 + r.usize(13);
				let pat = r.bytes(n);
				(0..len as usize).map(|i| pat[i % pat.len()]).collect()
			}
		}
	} else {
		r.bytes(len as usize)
	}
}

#[derive(Clone, Debug)]
pub struct StepResult {
	/// index into `ops`; `ops.len()` = the end action; `usize::MAX` = build
	pub op: usize,
	pub res: Result<(), String>,
	pub panicked: Option<String>,
	/// bytes accepted by the sink once this call returned
	pub accepted_len: usize,
	/// sink calls made so far
	pub sink_calls: u64,
	/// the caller-failure fault fired during this call
	pub poison_fired: bool,
}

pub struct WriterRun {
	pub steps: Vec<StepResult>,
	/// values whose serialize/push call returned Ok, in order
	pub model: Vec<Val>,
	/// number of model values after each step (parallel to `steps`)
	pub model_len_after: Vec<usize>,
	pub poison_fired: u64,
	pub poison_depths: Vec<u32>,
	pub build_failed: bool,
}

/// Drive the real writer through `spec` against `sink`. `observe` is called after every API call
/// that returned (that point is a possible crash point); returning `false` abandons the history
/// (the writer is leaked, not dropped).
pub fn run_writer(spec: &FileSpec, sink: &SimSink, mut observe: impl FnMut(&StepResult, &[Val]) -> bool) -> WriterRun {
	let env = Env::build(&spec.schema);
	let mut run = WriterRun {
		steps: vec![],
		model: vec![],
		model_len_after: vec![],
		poison_fired: 0,
		poison_depths: vec![],
		build_failed: false,
	};
	let schema = match world::parse_schema(&spec.schema) {
		Ok(s) => s,
		Err(e) => {
			run.steps.push(StepResult {
				op: usize::MAX,
				res: Err(format!("HARNESS: {e}")),
				panicked: None,
				accepted_len: 0,
				sink_calls: 0,
				poison_fired: false,
			});
			run.build_failed = true;
			return run;
		}
	};
	if spec.via_write_all {
		let mut items: Vec<(&Val, PresCfg)> = vec![];
		for op in &spec.ops {
			match op {
				Op::Serialize { val, pres, .. } => items.push((val, PresCfg { bytes_as_seq: false, ..*pres })),
				Op::SerializeAll { items: its } => items.extend(its.iter().map(|(v, p, _)| (v, PresCfg { bytes_as_seq: false, ..*p }))),
				_ => {}
			}
		}
		let ctxs: Vec<PresCtx> = items.iter().map(|(_, pres)| PresCtx::new(&env, *pres, None)).collect();
		let r = catch(|| {
			serde_avro_fast::object_container_file_encoding::write_all(
				&schema,
				to_crate_compression(spec.codec),
				sink.clone(),
				items.iter().zip(&ctxs).map(|((v, _), ctx)| Presented::new(v, &spec.schema, ctx)),
			)
			.map(|_| ())
		});
		let (res, panicked) = match r {
			Ok(Ok(())) => {
				run.model.extend(items.iter().map(|(v, _)| (*v).clone()));
				(Ok(()), None)
			}
			Ok(Err(e)) => (Err(e.to_string()), None),
			Err(p) => (Err("panic".into()), Some(p)),
		};
		let st = StepResult { op: spec.ops.len(), res, panicked, accepted_len: sink.accepted_len(), sink_calls: sink.calls(), poison_fired: false };
		observe(&st, &run.model);
		run.steps.push(st);
		run.model_len_after.push(run.model.len());
		return run;
	}
	let mut config = SerializerConfig::new(&schema);
	config.allow_slow_sequence_to_bytes();
	let meta: BTreeMap<String, ByteBuf> = spec.user_meta.iter().map(|(k, v)| (k.clone(), ByteBuf::from(v.clone()))).collect();
	let mut owned_slot = None;
	if spec.owned_config {
		let mut c = SerializerConfig::new(&schema);
		c.allow_slow_sequence_to_bytes();
		owned_slot = Some(c);
	}
	if !spec.owned_config && !spec.prelude.is_empty() {
		run_prelude(spec, &env, &mut config);
	}
	let built = catch(|| {
		let b = match owned_slot.take() {
			Some(c) => WriterBuilder::with_owned_config(c),
			None => WriterBuilder::new(&mut config),
		}
			.compression(to_crate_compression(spec.codec))
			.approx_block_size(spec.approx_block_size)
			.sync_marker(spec.sync);
		// (without user metadata: through `build` in half of the files, `build_with_user_metadata` of an empty map otherwise)
		if spec.user_meta.is_empty() && spec.sync[0] % 2 == 0 {
			b.build(sink.clone())
		} else {
			b.build_with_user_metadata(sink.clone(), meta)
		}
	});
	let step_poison = std::cell::Cell::new(false);
	let mut push_step = |run: &mut WriterRun, op: usize, res: Result<(), String>, panicked: Option<String>| {
		let st = StepResult {
			op,
			res,
			panicked,
			accepted_len: sink.accepted_len(),
			sink_calls: sink.calls(),
			poison_fired: step_poison.replace(false),
		};
		let go_on = observe(&st, &run.model);
		run.steps.push(st);
		run.model_len_after.push(run.model.len());
		go_on
	};
	let mut writer = match built {
		Ok(Ok(w)) => {
			if !push_step(&mut run, usize::MAX, Ok(()), None) {
				let _ = catch(|| drop(w));
				return run;
			}
			w
		}
		Ok(Err(e)) => {
			push_step(&mut run, usize::MAX, Err(e.to_string()), None);
			run.build_failed = true;
			return run;
		}
		Err(p) => {
			push_step(&mut run, usize::MAX, Err("panic".into()), Some(p));
			run.build_failed = true;
			return run;
		}
	};
	// a second schema handle for pre-serialisation (the writer holds `config` mutably)
	let schema2 = world::parse_schema(&spec.schema).expect("parsed once already");
	let mut writer_dead = false;
	for (i, op) in spec.ops.iter().enumerate() {
		let (res, panicked, added): (Result<(), String>, Option<String>, Vec<Val>) = match op {
			Op::Serialize { val, pres, poison } => {
				let ctx = PresCtx::new(&env, *pres, *poison);
				let r = catch(|| writer.serialize(Presented::new(val, &spec.schema, &ctx)));
				if ctx.poison_fired.get() {
					step_poison.set(true);
					run.poison_fired += 1;
					run.poison_depths.push(ctx.poison_depth.get());
				}
				match r {
					Ok(Ok(())) => (Ok(()), None, vec![val.clone()]),
					Ok(Err(e)) => (Err(e.to_string()), None, vec![]),
					Err(p) => (Err("panic".into()), Some(p), vec![]),
				}
			}
			Op::SerializeAll { items } => {
				let ctxs: Vec<PresCtx> = items.iter().map(|(_, pres, poison)| PresCtx::new(&env, *pres, *poison)).collect();
				let pulled = std::cell::Cell::new(0usize);
				let r = catch(|| {
					writer.serialize_all(items.iter().zip(&ctxs).map(|((v, _, _), ctx)| {
						pulled.set(pulled.get() + 1);
						Presented::new(v, &spec.schema, ctx)
					}))
				});
				for ctx in &ctxs {
					if ctx.poison_fired.get() {
						step_poison.set(true);
						run.poison_fired += 1;
						run.poison_depths.push(ctx.poison_depth.get());
					}
				}
				match r {
					Ok(Ok(())) => (Ok(()), None, items.iter().map(|i| i.0.clone()).collect()),
					// the items before the one that failed were accepted
					Ok(Err(e)) => (Err(e.to_string()), None, items[..pulled.get().saturating_sub(1)].iter().map(|i| i.0.clone()).collect()),
					Err(p) => (Err("panic".into()), Some(p), vec![]),
				}
			}
			Op::Blob { len, seed, compressible } => {
				let b = blob(*len, *seed, *compressible);
				let r = catch(|| writer.serialize(serde_bytes::Bytes::new(&b)));
				match r {
					Ok(Ok(())) => (Ok(()), None, vec![Val::Bytes(b)]),
					Ok(Err(e)) => (Err(e.to_string()), None, vec![]),
					Err(p) => (Err("panic".into()), Some(p), vec![]),
				}
			}
			Op::PushCrate { vals } => {
				let mut buf = vec![];
				let mut pre_err = None;
				for v in vals {
					match world::crate_encode(&schema2, &env, &spec.schema, v, PresCfg::plain()) {
						Ok(b) => buf.extend_from_slice(&b),
						Err(e) => pre_err = Some(e),
					}
				}
				match pre_err {
					Some(e) => (Err(format!("PRE-SERIALIZE: {e}")), None, vec![]),
					None => match catch(|| writer.push_serialized(&buf, vals.len() as u64)) {
						Ok(Ok(())) => (Ok(()), None, vals.clone()),
						Ok(Err(e)) => (Err(e.to_string()), None, vec![]),
						Err(p) => (Err("panic".into()), Some(p), vec![]),
					},
				}
			}
			Op::PushRef { vals, layout } => {
				let mut buf = vec![];
				for (j, v) in vals.iter().enumerate() {
					let mut l = *layout;
					l.seed = l.seed.wrapping_add(j as u64);
					let (b, _) = ref_datum::encode(&env, &spec.schema, v, l).expect("HARNESS: reference encoder rejected a generated value");
					buf.extend_from_slice(&b);
				}
				match catch(|| writer.push_serialized(&buf, vals.len() as u64)) {
					Ok(Ok(())) => (Ok(()), None, vals.clone()),
					Ok(Err(e)) => (Err(e.to_string()), None, vec![]),
					Err(p) => (Err("panic".into()), Some(p), vec![]),
				}
			}
			Op::FinishBlock => match catch(|| writer.finish_block()) {
				Ok(Ok(())) => (Ok(()), None, vec![]),
				Ok(Err(e)) => (Err(e.to_string()), None, vec![]),
				Err(p) => (Err("panic".into()), Some(p), vec![]),
			},
			Op::Many { .. } => (Err("HARNESS: Op::Many reached run_writer unexpanded".into()), None, vec![]),
		};
		run.model.extend(added);
		let was_panic = panicked.is_some();
		let go_on = push_step(&mut run, i, res, panicked);
		if was_panic || !go_on {
			writer_dead = true;
			break;
		}
	}
	if writer_dead {
		// abandoned history (or a writer that panicked mid-call): its Drop may flush into the healed sink or panic
		// again — neither matters any more, but the writer must not be leaked (thousands of abandoned histories per
		// scenario would otherwise accumulate their buffers and codec contexts)
		let _ = catch(|| drop(writer));
		return run;
	}
	let end_idx = spec.ops.len();
	match spec.end {
		End::IntoInner => match catch(|| writer.into_inner()) {
			Ok(Ok(_sink)) => push_step(&mut run, end_idx, Ok(()), None),
			Ok(Err(e)) => push_step(&mut run, end_idx, Err(e.to_string()), None),
			Err(p) => push_step(&mut run, end_idx, Err("panic".into()), Some(p)),
		},
		// one history in four that ends by drop ends by a drop DURING UNWINDING: the caller panics (its own bug, between
		// two calls) while the writer is alive. "After dropping it, the file contains all of them" has no exception for
		// the reason of the drop.
		End::Drop if spec.sync[1] % 4 == 0 => {
			let r = catch(move || {
				let _alive_until_the_unwind = writer;
				std::panic::panic_any("HARNESS-UNWIND: the caller panics while the writer is alive");
			});
			match r {
				Err(p) if p.contains("HARNESS-UNWIND") => push_step(&mut run, end_idx, Ok(()), None),
				Err(p) => push_step(&mut run, end_idx, Err("panic".into()), Some(p)),
				Ok(()) => push_step(&mut run, end_idx, Err("HARNESS: the unwind did not happen".into()), None),
			}
		}
		End::Drop => match catch(|| drop(writer)) {
			Ok(()) => push_step(&mut run, end_idx, Ok(()), None),
			Err(p) => push_step(&mut run, end_idx, Err("panic".into()), Some(p)),
		},
	};
	run
}

// ---------------------------------------------------------------------------------------------
// reading

#[derive(Clone, Debug, PartialEq, Eq, Serialize, Deserialize)]
pub enum RKind {
	Slice,
	Cursor,
	Sim(ReaderKind),
	/// slice reader driven through the `Reader::deserialize::<T>()` iterator adaptor
	SliceIter,
	/// `Reader::from_reader(BufReader::new(Cursor))` (std's default 8 KiB buffer) through the iterator adaptor
	BufReaderIter,
}
impl RKind {
	pub fn label(&self) -> String {
		match self {
			RKind::Slice => "slice".into(),
			RKind::Cursor => "cursor".into(),
			RKind::Sim(k) => k.label(),
			RKind::SliceIter => "slice-iterator".into(),
			RKind::BufReaderIter => "bufreader-iterator".into(),
		}
	}
	pub fn class(&self) -> u64 {
		match self {
			RKind::SliceIter => 8,
			RKind::BufReaderIter => 9,
			RKind::Slice => 0,
			RKind::Cursor => 1,
			RKind::Sim(ReaderKind::Direct(RefillPlan::Whole)) => 2,
			RKind::Sim(ReaderKind::Direct(RefillPlan::Fixed(1))) => 3,
			RKind::Sim(ReaderKind::Direct(RefillPlan::Fixed(_))) => 4,
			RKind::Sim(ReaderKind::Direct(RefillPlan::Cycle(_))) => 5,
			RKind::Sim(ReaderKind::Direct(RefillPlan::Cuts(_))) => 6,
			RKind::Sim(ReaderKind::BufReader { .. }) => 7,
		}
	}
}

#[derive(Clone, Debug, PartialEq)]
pub enum Item {
	Val(Val),
	Err { msg: String, io: bool },
	None,
}

#[derive(Clone, Debug, Default)]
pub struct ReadRun {
	pub ctor_err: Option<String>,
	pub items: Vec<Item>,
	pub panicked: Option<String>,
	pub call_budget_exhausted: bool,
	/// the driver stopped after four consecutive errors (a caller that gives up)
	pub gave_up_after_errors: bool,
	pub meta: Option<Vec<(String, Vec<u8>)>>,
	pub source: Option<SourceStats>,
	pub calls: u64,
	/// (iterator adaptors) `size_hint()` promised at least this many more items than the iterator then delivered
	/// before it ended: std consumers (`collect`, `extend`) reserve the lower bound up front
	pub size_hint_lie: Option<String>,
}
impl ReadRun {
	pub fn values(&self) -> Vec<&Val> {
		self.items.iter().filter_map(|i| if let Item::Val(v) = i { Some(v) } else { None }).collect()
	}
	pub fn n_errs(&self) -> usize {
		self.items.iter().filter(|i| matches!(i, Item::Err { .. })).count() + self.ctor_err.is_some() as usize
	}
	/// e.g. "VVEN": values, errors, end-of-stream markers in order
	pub fn shape(&self) -> String {
		let mut s = String::new();
		if self.ctor_err.is_some() {
			s.push('C');
		}
		for i in &self.items {
			s.push(match i {
				Item::Val(_) => 'V',
				Item::Err { io: true, .. } => 'I',
				Item::Err { .. } => 'E',
				Item::None => 'N',
			});
		}
		if self.panicked.is_some() {
			s.push('P');
		}
		if self.call_budget_exhausted {
			s.push('B');
		}
		s
	}
	pub fn shape_class(&self) -> String {
		// compress runs: V+ -> V, so that signatures do not depend on value counts
		let sh = self.shape();
		let mut out = String::new();
		for c in sh.chars() {
			if out.chars().last() != Some(c) || c == 'E' || c == 'I' {
				out.push(c);
			}
		}
		out
	}
	pub fn ended_cleanly(&self) -> bool {
		self.ctor_err.is_none() && self.panicked.is_none() && self.n_errs() == 0 && matches!(self.items.last(), Some(Item::None))
	}
}

thread_local! {
	/// `Some(seed)`: the seed-based readers capture through a target that hands some record fields to an ignoring
	/// visitor (a caller's struct that does not declare every field); they come back as the marker string
	pub static READ_MASK: std::cell::Cell<Option<u64>> = const { std::cell::Cell::new(None) };
}

fn drive<'de, R>(
	ctor: Result<(Reader<R>, BTreeMap<String, ByteBuf>), serde_avro_fast::object_container_file_encoding::FailedToInitializeReader>,
	env: &Env,
	ty: &Ty,
	call_budget: usize,
	run: &mut ReadRun,
) where
	R: serde_avro_fast::de::read::Read + serde_avro_fast::de::read::take::Take + std::io::BufRead + serde_avro_fast::de::read::ReadSlice<'de>,
	<R as serde_avro_fast::de::read::take::Take>::Take: std::io::BufRead + serde_avro_fast::de::read::ReadSlice<'de>,
{
	let (mut reader, meta) = match ctor {
		Ok(x) => x,
		Err(e) => {
			run.ctor_err = Some(e.to_string());
			return;
		}
	};
	run.meta = Some(meta.into_iter().map(|(k, v)| (k, v.into_vec())).collect());
	let mut consecutive_none = 0;
	let mut consecutive_err = 0;
	loop {
		if consecutive_err >= 4 {
			run.gave_up_after_errors = true;
			break;
		}
		if run.calls as usize >= call_budget {
			run.call_budget_exhausted = true;
			break;
		}
		run.calls += 1;
		let ctx = match READ_MASK.with(|m| m.get()) {
			Some(seed) => CapCtx::masked(env, seed ^ run.calls as u64),
			None => CapCtx::new(env),
		};
		let r = catch(|| reader.deserialize_seed_next(Capture { ty, ctx: &ctx }));
		match r {
			Err(p) => {
				run.panicked = Some(p);
				// the reader may be in any state: do not touch it again, do not run its Drop
				std::mem::forget(reader);
				return;
			}
			Ok(Ok(Some(v))) => {
				consecutive_none = 0;
				consecutive_err = 0;
				run.items.push(Item::Val(v));
			}
			Ok(Ok(None)) => {
				consecutive_none += 1;
				consecutive_err = 0;
				run.items.push(Item::None);
				if consecutive_none >= 3 {
					break;
				}
			}
			Ok(Err(e)) => {
				consecutive_none = 0;
				consecutive_err += 1;
				run.items.push(Item::Err {
					msg: e.to_string(),
					io: e.io_error().is_some(),
				});
			}
		}
	}
}

thread_local! {
	static SIZE_HINT_LIE: std::cell::RefCell<Option<String>> = const { std::cell::RefCell::new(None) };
}

/// Same as `drive`, through the iterator adaptor: an iterator ends at the first `Ok(None)`; it is re-created to
/// check that end of stream is stable
fn drive_iter<'de, R>(
	ctor: Result<Reader<R>, serde_avro_fast::object_container_file_encoding::FailedToInitializeReader>,
	env: &Env,
	ty: &Ty,
	call_budget: usize,
	run: &mut ReadRun,
) where
	R: serde_avro_fast::de::read::Read + serde_avro_fast::de::read::take::Take + std::io::BufRead + serde_avro_fast::de::read::ReadSlice<'de>,
	<R as serde_avro_fast::de::read::take::Take>::Take: std::io::BufRead + serde_avro_fast::de::read::ReadSlice<'de>,
{
	// (the plain constructors `Reader::from_slice` / `Reader::from_reader`: user metadata is not asked for)
	let mut reader = match ctor {
		Ok(x) => x,
		Err(e) => {
			run.ctor_err = Some(e.to_string());
			return;
		}
	};
	run.meta = None;
	let mut consecutive_err = 0;
	for _round in 0..3 {
		let r = catch(|| {
			crate::tls::with_ctx_pub(env, ty, crate::world::Target::capture(), || {
				let mut items = vec![];
				let mut errs = 0;
				let mut it = reader.deserialize::<crate::tls::ViaTls>();
				let mut hints: Vec<(usize, usize)> = vec![];
				loop {
					hints.push((items.len(), it.size_hint().0));
					let Some(item) = it.next() else {
						// the iterator has ended: every lower bound it gave on the way must have been honoured
						for (at, lower) in &hints {
							if items.len() - at < *lower {
								SIZE_HINT_LIE.with(|c| *c.borrow_mut() = Some(format!("after {at} items size_hint() promised at least {lower} more, {} followed", items.len() - at)));
								break;
							}
						}
						break;
					};
					if items.len() >= call_budget {
						return (items, true);
					}
					match item {
						Ok(v) => {
							errs = 0;
							items.push(Item::Val(v.0));
						}
						Err(e) => {
							errs += 1;
							items.push(Item::Err { msg: e.to_string(), io: e.io_error().is_some() });
							if errs >= 4 {
								return (items, false);
							}
						}
					}
				}
				(items, false)
			})
		});
		match r {
			Err(p) => {
				run.panicked = Some(p);
				std::mem::forget(reader);
				return;
			}
			Ok((items, over_budget)) => {
				if let Some(l) = SIZE_HINT_LIE.with(|c| c.borrow_mut().take()) {
					run.size_hint_lie = Some(l);
				}
				run.calls += items.len() as u64 + 1;
				consecutive_err = items.iter().rev().take_while(|i| matches!(i, Item::Err { .. })).count();
				run.items.extend(items);
				if over_budget {
					run.call_budget_exhausted = true;
					return;
				}
				if consecutive_err >= 4 {
					run.gave_up_after_errors = true;
					return;
				}
				run.items.push(Item::None);
			}
		}
	}
	let _ = consecutive_err;
}

/// Read a file with the real `Reader` until three consecutive `Ok(None)` or the call budget
pub fn read_file(bytes: &[u8], env: &Env, ty: &Ty, kind: &RKind, faults: &[SourceFault], call_budget: usize) -> ReadRun {
	let mut run = ReadRun::default();
	match kind {
		RKind::Slice => {
			let ctor = catch(|| Reader::new_and_metadata::<BTreeMap<String, ByteBuf>>(serde_avro_fast::de::read::SliceRead::new(bytes)));
			match ctor {
				Ok(c) => drive(c, env, ty, call_budget, &mut run),
				Err(p) => run.panicked = Some(p),
			}
		}
		RKind::SliceIter => {
			let ctor = catch(|| Reader::from_slice(bytes));
			match ctor {
				Ok(c) => drive_iter(c, env, ty, call_budget, &mut run),
				Err(p) => run.panicked = Some(p),
			}
		}
		RKind::BufReaderIter => {
			let ctor = catch(|| Reader::from_reader(std::io::BufReader::new(std::io::Cursor::new(bytes))));
			match ctor {
				Ok(c) => drive_iter(c, env, ty, call_budget, &mut run),
				Err(p) => run.panicked = Some(p),
			}
		}
		RKind::Cursor => {
			let ctor = catch(|| {
				Reader::new_and_metadata::<BTreeMap<String, ByteBuf>>(serde_avro_fast::de::read::ReaderRead::new(std::io::Cursor::new(bytes)))
			});
			match ctor {
				Ok(c) => drive(c, env, ty, call_budget, &mut run),
				Err(p) => run.panicked = Some(p),
			}
		}
		RKind::Sim(ReaderKind::Direct(plan)) => {
			let mut src = SimSource::new(bytes, plan.clone()).with_faults(faults.to_vec());
			{
				let ctor = catch(|| Reader::new_and_metadata::<BTreeMap<String, ByteBuf>>(serde_avro_fast::de::read::ReaderRead::new(&mut src)));
				match ctor {
					Ok(c) => drive(c, env, ty, call_budget, &mut run),
					Err(p) => run.panicked = Some(p),
				}
			}
			run.source = Some(src.finish());
		}
		RKind::Sim(ReaderKind::BufReader { cap, plan }) => {
			let mut src = SimSource::new(bytes, plan.clone()).with_faults(faults.to_vec());
			{
				let ctor = catch(|| {
					Reader::new_and_metadata::<BTreeMap<String, ByteBuf>>(serde_avro_fast::de::read::ReaderRead::new(
						std::io::BufReader::with_capacity((*cap).max(1), &mut src),
					))
				});
				match ctor {
					Ok(c) => drive(c, env, ty, call_budget, &mut run),
					Err(p) => run.panicked = Some(p),
				}
			}
			run.source = Some(src.finish());
		}
	}
	run
}

pub fn call_budget_for(declared_objects: usize, blocks: usize) -> usize {
	declared_objects + 2 * blocks + 8
}

// ---------------------------------------------------------------------------------------------
// generators

pub fn gen_codec(rng: &mut Rng, heavy_ok: bool) -> Codec {
	gen_codec_ext(rng, heavy_ok, false)
}

/// `xz_high`: allow xz presets 7-9 (only where a scenario compresses a handful of blocks)
pub fn gen_codec_ext(rng: &mut Rng, heavy_ok: bool, xz_high: bool) -> Codec {
	match rng.below(if heavy_ok { 12 } else { 9 }) {
		0 | 1 => Codec::Null,
		2 | 3 => Codec::Deflate(if rng.bool() { 0 } else { 1 + rng.below(9) as u8 }),
		4 | 5 => Codec::Snappy,
		6 | 7 | 8 => Codec::Zstd(match rng.below(4) {
			0 => 0,
			1 => 1 + rng.below(9) as u8,
			2 => 10 + rng.below(10) as u8,
			_ => *rng.pick(&[1u8, 3, 19, 22]),
		}),
		9 | 10 => Codec::Bzip2(if rng.bool() { 0 } else { 1 + rng.below(9) as u8 }),
		// presets 7-9 cost 0.2-0.7 GiB of encoder memory per block: rare
		_ => Codec::Xz(if rng.bool() {
			0
		} else if xz_high && rng.chance(1, 12) {
			7 + rng.below(3) as u8
		} else {
			1 + rng.below(6) as u8
		}),
	}
}

pub fn gen_sync(rng: &mut Rng) -> [u8; 16] {
	let b = rng.bytes(16);
	b.try_into().unwrap()
}

pub fn gen_user_meta(rng: &mut Rng) -> Vec<(String, Vec<u8>)> {
	let n = match rng.below(40) {
		0..=19 => 0,
		20..=29 => 1,
		39 => 40 + rng.usize(300),
		_ => 1 + rng.usize(4),
	};
	let mut out: Vec<(String, Vec<u8>)> = vec![];
	for i in 0..n {
		let k = match rng.below(if n > 8 { 4 } else { 5 }) {
			// a key of several hundred bytes, or longer than the reader's 8 KiB buffer
			4 => format!("long.{}.{i}", "k".repeat(*rng.pick(&[64usize, 300, 8200]))),
			0 => format!("user.k{i}"),
			1 => format!("k{i}é"),
			2 => format!("{i}"),
			// (keys starting with "avro." are reserved by the specification: never generated)
			_ => format!("x-avro.custom{i}"),
		};
		let v = match rng.below(if n > 8 { 4 } else { 6 }) {
			0 => vec![],
			1 => vec![0xff, 0xfe, 0x00, 0x80],
			4 => {
				let n = *rng.pick(&[63usize, 64, 127, 128, 8191, 8192, 8193, 20_000, 65_536, 65_537, 70_000]);
				rng.bytes(n)
			}
			5 => "valeur \u{e9}\u{20ac} \"q\" \\".as_bytes().to_vec(),
			_ => {
				let n = rng.usize(20);
				rng.bytes(n)
			}
		};
		out.push((k, v));
	}
	out.sort();
	out
}

#[derive(Clone, Copy, Debug)]
pub struct SpecProfile {
	pub poison: bool,
	pub max_ops: usize,
	pub heavy_codecs: bool,
	pub big_blobs: bool,
	/// values at least one byte wide (C17's count / size oracles need that)
	pub min_width_one: bool,
	pub push_ops: bool,
	/// 0: never; 1: deliberately large-scale schemas / values of modest encoded size; 2: also the big ones
	pub scale: u8,
}

pub fn min_width(env: &Env, ty: &Ty, depth: u32) -> usize {
	ast::min_width(env, ty, depth)
}

/// true when some array / map element type can be encoded in zero bytes (then the work a reader does is
/// bounded by counts written in the data, not by the data's length)
pub fn has_zero_width_elements(env: &Env, ty: &Ty, depth: u32) -> bool {
	if depth > 8 {
		return false;
	}
	match env.resolve(ty) {
		Ty::Array(t) => min_width(env, t, 0) == 0 || has_zero_width_elements(env, t, depth + 1),
		Ty::Map(t) => has_zero_width_elements(env, t, depth + 1),
		Ty::Union(ts) => ts.iter().any(|t| has_zero_width_elements(env, t, depth + 1)),
		Ty::Record { fields, .. } => fields.iter().any(|(_, t)| has_zero_width_elements(env, t, depth + 1)),
		_ => false,
	}
}

pub fn gen_schema_for(rng: &mut Rng, p: &SpecProfile) -> Ty {
	for _ in 0..50 {
		let corner = ast::corner_schemas();
		let schema = if rng.chance(1, 6) {
			rng.pick(&corner).clone()
		} else {
			let mut cfg = GenCfg::default_swarm(rng);
			if p.poison {
				cfg.record_bias = true;
				cfg.max_depth = cfg.max_depth.max(2);
			}
			ast::gen_schema(rng, cfg)
		};
		if p.min_width_one {
			let env = Env::build(&schema);
			if min_width(&env, &schema, 0) == 0 || has_zero_width_elements(&env, &schema, 0) {
				continue;
			}
		}
		return schema;
	}
	Ty::Record {
		name: 0,
		fields: vec![(0, Ty::Long), (1, Ty::String)],
	}
}

/// `gen_schema_for`, or (one time in thirty, where the profile allows) a deliberately large-scale schema
pub fn gen_schema_maybe_scale(rng: &mut Rng, p: &SpecProfile) -> (Ty, Option<ast::Scale>) {
	if p.scale > 0 && rng.chance(1, 30) {
		let (ty, sc) = ast::gen_scale_schema(rng, p.scale == 1);
		let env = Env::build(&ty);
		if !(p.min_width_one && (min_width(&env, &ty, 0) == 0 || has_zero_width_elements(&env, &ty, 0))) {
			return (ty, Some(sc));
		}
	}
	(gen_schema_for(rng, p), None)
}

pub fn gen_filespec(rng: &mut Rng, p: &SpecProfile) -> FileSpec {
	let codec = gen_codec_ext(rng, p.heavy_codecs, p.big_blobs);
	// big-blob scenarios: schema = bytes, block sizes on internal buffer boundaries
	if p.big_blobs && rng.chance(1, 6) {
		return gen_blob_spec(rng, codec);
	}
	let (schema, scale) = gen_schema_maybe_scale(rng, p);
	let env = Env::build(&schema);
	let vcfg = ValCfg {
		max_len: 1 + rng.usize(8),
		max_depth: 4,
		budget: 6 + rng.below(40) as i32, str_boost: 0, scale: None }.with_scale(scale);
	let n_ops = if scale.is_some() { 1 + rng.usize(p.max_ops.min(4)) } else { 1 + rng.usize(p.max_ops) };
	let mut ops = vec![];
	let mut sizes: Vec<usize> = vec![];
	for _ in 0..n_ops {
		let c = rng.below(12);
		let op = if c < 7 || !p.push_ops && c < 10 {
			let v = val::gen_val(rng, &env, &schema, &vcfg);
			sizes.push(ref_datum::encode(&env, &schema, &v, Layout::default()).map(|b| b.0.len()).unwrap_or(0));
			let pres = if rng.chance(1, 2) { PresCfg::plain() } else { PresCfg::random(rng, true) };
			let poison = if p.poison && rng.chance(1, 3) {
				Some(Poison {
					at_call: rng.usize(1 + sizes.last().copied().unwrap_or(1).min(24)),
					kind: *rng.pick(&[PoisonKind::Err, PoisonKind::WrongType, PoisonKind::MissingField, PoisonKind::DupField, PoisonKind::AbortMidSeq]),
				})
			} else {
				None
			};
			Op::Serialize { val: v, pres, poison }
		} else if c < 9 && rng.chance(1, 3) {
			let k = 1 + rng.usize(4);
			let items = (0..k)
				.map(|_| {
					let v = val::gen_val(rng, &env, &schema, &vcfg);
					sizes.push(ref_datum::encode(&env, &schema, &v, Layout::default()).map(|b| b.0.len()).unwrap_or(0));
					let pres = if rng.chance(1, 2) { PresCfg::plain() } else { PresCfg::random(rng, true) };
					let poison = if p.poison && rng.chance(1, 4) {
						Some(Poison {
							at_call: rng.usize(12),
							kind: *rng.pick(&[PoisonKind::Err, PoisonKind::WrongType, PoisonKind::MissingField, PoisonKind::DupField, PoisonKind::AbortMidSeq]),
						})
					} else {
						None
					};
					(v, pres, poison)
				})
				.collect();
			Op::SerializeAll { items }
		} else if c < 9 {
			let k = rng.usize(4);
			let vals: Vec<Val> = (0..k).map(|_| val::gen_val(rng, &env, &schema, &vcfg)).collect();
			if rng.bool() {
				Op::PushCrate { vals }
			} else {
				Op::PushRef {
					vals,
					layout: Layout {
						seed: rng.next_u64(),
						split_blocks: rng.bool(),
						negative_counts: rng.bool(),
						pad_varints: 0,
					},
				}
			}
		} else {
			Op::FinishBlock
		};
		ops.push(op);
	}
	// approx_block_size: 0, 1, tiny, exact cumulative sizes +-1, large
	let cum: Vec<usize> = sizes
		.iter()
		.scan(0usize, |a, s| {
			*a += s;
			Some(*a)
		})
		.collect();
	let approx_block_size = match rng.below(8) {
		0 => 0,
		1 => 1,
		2 => 2 + rng.below(6) as u32,
		3 | 4 if !cum.is_empty() => {
			let c = *rng.pick(&cum) as i64 + rng.range(-1, 1);
			c.max(0) as u32
		}
		5 => 4096,
		_ => 64 * 1024,
	};
	// one file in 25: the sync marker also occurs INSIDE the block data (16 bytes taken from the encoded values): a
	// reader goes by the block's byte size, never by looking for the marker
	let mut sync = gen_sync(rng);
	if rng.chance(1, 25) {
		let mut data = vec![];
		for op in &ops {
			if let Op::Serialize { val, poison: None, .. } = op {
				if let Ok((b, _)) = ref_datum::encode(&env, &schema, val, Layout::default()) {
					data.extend_from_slice(&b);
				}
			}
		}
		if data.len() >= 16 {
			let off = rng.usize(data.len() - 15);
			sync.copy_from_slice(&data[off..off + 16]);
		}
	}
	FileSpec {
		schema,
		codec,
		approx_block_size,
		sync,
		user_meta: gen_user_meta(rng),
		ops,
		end: if rng.bool() { End::IntoInner } else { End::Drop },
		owned_config: rng.chance(1, 4),
		via_write_all: false,
		prelude: if rng.chance(1, 8) { gen_prelude(rng) } else { vec![] },
	}
}

/// A LONG history over a small schema: hundreds of blocks, or one block of more than 65 535 objects, or a long
/// alternation of values, failing values, pushes and flushes. What a dozen operations cannot reach: counters that
/// wrap or are narrowed, running totals that drift, buffers that are recycled, capped or shrunk after N uses.
/// `max_n` bounds the number of values (checks that enumerate schedules per workload pass a lower one).
pub fn gen_long_spec(rng: &mut Rng, p: &SpecProfile, max_n: u32) -> FileSpec {
	let mut schema = match rng.below(12) {
		0 if !p.min_width_one => Ty::Null,
		1 => Ty::Int,
		2 => Ty::Long,
		3 => Ty::String,
		4 => Ty::Bytes,
		5 => Ty::Boolean,
		6 => Ty::Record { name: 0, fields: vec![(0, Ty::Int), (1, Ty::String)] },
		7 => Ty::Union(vec![Ty::Null, Ty::String]),
		8 if !p.min_width_one => Ty::Record { name: 1, fields: vec![] },
		9 => Ty::Array(Box::new(Ty::Int)),
		_ => gen_schema_for(rng, p),
	};
	let huge_block = max_n > 70_000 && rng.chance(1, 4);
	if huge_block {
		// more than 65 535 objects in ONE block: tiny values only
		schema = match rng.below(5) {
			0 if !p.min_width_one => Ty::Null,
			1 => Ty::Boolean,
			2 => Ty::Long,
			3 if !p.min_width_one => Ty::Record { name: 1, fields: vec![] },
			_ => Ty::Int,
		};
	}
	let n = if huge_block {
		let span = *rng.pick(&[40u64, 3_000, 70_000]);
		65_530 + rng.below(span) as u32
	} else {
		match rng.below(4) {
			0 => 250 + rng.below(20) as u32,
			1 => 257 + rng.below(300) as u32,
			2 => 1_000 + rng.below(100) as u32,
			_ => 300 + rng.below(900) as u32,
		}
		.min(max_n)
	};
	let (finish_every, approx_block_size) = if huge_block {
		(0, 16 * 1024 * 1024)
	} else {
		match rng.below(6) {
			// a block per value
			0 => (0, 0),
			1 => (1, 64 * 1024),
			2 => (0, 1 + rng.below(8) as u32),
			// a block every few values
			3 => (2 + rng.below(6) as u32, 64 * 1024),
			4 => (0, 16 + rng.below(100) as u32),
			// few blocks, many values each
			_ => (100 + rng.below(200) as u32, 64 * 1024),
		}
	};
	// many blocks through bzip2 / xz cost a stream set-up each: cheap codecs mostly
	let codec = if huge_block || !p.heavy_codecs || rng.chance(9, 10) { gen_codec(rng, false) } else { *rng.pick(&[Codec::Bzip2(1), Codec::Xz(1), Codec::Bzip2(0), Codec::Xz(0)]) };
	let n = if matches!(codec, Codec::Bzip2(_) | Codec::Xz(_)) { n.min(300) } else { n };
	let mut ops = vec![];
	if rng.chance(1, 3) {
		ops.push(Op::FinishBlock);
	}
	let pattern = if huge_block { 0 } else { rng.below(7) as u8 };
	// pattern 6 = a long run of blocks of one to two KiB each that no codec can shrink (what adaptive "this data does
	// not compress" logic reacts to): incompressible bytes, a block per value, codecs drawn evenly
	let (schema, approx_block_size, finish_every, codec) = if pattern == 6 && rng.chance(3, 4) {
		let codec = match rng.below(if p.heavy_codecs { 6 } else { 4 }) {
			0 => Codec::Null,
			1 => Codec::Deflate(if rng.bool() { 0 } else { 1 + rng.below(9) as u8 }),
			2 => Codec::Snappy,
			3 => Codec::Zstd(if rng.bool() { 0 } else { 1 + rng.below(9) as u8 }),
			4 => Codec::Bzip2(1),
			_ => Codec::Xz(1),
		};
		let (a, f) = if rng.bool() { (0, 0) } else { (64 * 1024, 1) };
		(if rng.chance(2, 3) { Ty::Bytes } else { Ty::Record { name: 0, fields: vec![(0, Ty::Int), (1, Ty::Bytes)] } }, a, f, codec)
	} else {
		(schema, approx_block_size, finish_every, codec)
	};
	let n = if matches!(codec, Codec::Bzip2(_) | Codec::Xz(_)) { n.min(300) } else { n };
	// (zstandard above level 9 sets up tens to hundreds of MiB of tables per block: not hundreds of times per file)
	let codec = match codec {
		Codec::Zstd(l) if l > 9 => Codec::Zstd(1 + l % 9),
		c => c,
	};
	ops.push(Op::Many {
		seed: rng.next_u64(),
		n,
		finish_every,
		push_every: if p.push_ops && !huge_block && rng.chance(1, 3) { 2 + rng.below(9) as u32 } else { 0 },
		poison_every: if p.poison && !huge_block && rng.chance(1, 2) { 2 + rng.below(40) as u32 } else { 0 },
		pattern,
	});
	FileSpec {
		schema,
		codec,
		approx_block_size,
		sync: gen_sync(rng),
		user_meta: vec![],
		ops,
		end: if rng.bool() { End::IntoInner } else { End::Drop },
		owned_config: rng.chance(1, 4),
		via_write_all: false,
		prelude: if rng.chance(1, 8) { gen_prelude(rng) } else { vec![] },
	}
}

/// The length of an incompressible blob (content: `blob(len, seed, false)`) which, alone in a block, compresses to
/// `target` bytes with `codec` — aimed with the codec libraries themselves, the way refill boundaries are aimed with
/// the token map. (The crate may frame a few bytes differently: callers draw `target` from a small window.)
pub fn aim_blob_len(codec: Codec, seed: u64, target: usize) -> u32 {
	let mut len = target.saturating_sub(16) as i64;
	for _ in 0..3 {
		let mut data = ref_datum::encode_long(len);
		data.extend_from_slice(&blob(len as u32, seed, false));
		let c = ref_container::compress(codec, &data).len() as i64;
		if c == target as i64 {
			break;
		}
		len = (len + target as i64 - c).max(1);
	}
	len as u32
}

pub fn gen_blob_spec(rng: &mut Rng, codec: Codec) -> FileSpec {
	let mut ops = vec![];
	let n = 1 + rng.usize(3);
	for _ in 0..n {
		let mut seed = rng.next_u64();
		let (len, compressible) = match rng.below(9) {
			// AIMED: alone in its block, this blob's compressed form ends 0-20 bytes before (or a few after) the 32 KiB /
			// 64 KiB mark at which the encoders' output buffers are exactly full
			8 => {
				let mark = *rng.pick(&[32usize, 32, 64]) * 1024;
				let target = (mark as i64 + rng.range(-20, 3)) as usize;
				seed |= 8; // (content kinds of `blob` are for compressible ones; keep the seed's low bits out of it)
				let len = aim_blob_len(codec, seed, target);
				ops.push(Op::FinishBlock);
				ops.push(Op::Blob { len, seed, compressible: false });
				ops.push(Op::FinishBlock);
				continue;
			}
			// tens to hundreds of KiB that compress a thousandfold and more (zeros, one repeated byte, long runs: see
			// `blob`): compressed forms of a few dozen bytes, expansion ratios beyond any "reasonable" bound
			6 => ((40_000 + rng.below(260_000)) as u32, true),
			// uncompressed block length on 8192*k +- 3 (length prefix of 2 or 3 bytes included)
			0 | 1 => {
				let k = 1 + rng.below(4) as i64;
				((8192 * k + rng.range(-6, 3)) as u32, rng.bool())
			}
			// compressed form crosses the 32 KiB starting buffer of the encoders
			2 | 3 => ((33_000 + rng.below(40_000)) as u32, false),
			// right around 32 KiB / 64 KiB: an incompressible block whose compressed form ends on, or a few bytes before
			// or after, the mark at which the encoders' output buffers are full
			4 => ((32 * 1024 + rng.range(-40, 40)) as u32, false),
			7 => ((*rng.pick(&[32i64, 32, 64]) * 1024 + rng.range(-36, 8)) as u32, false),
			_ => (rng.below(200) as u32, rng.bool()),
		};
		ops.push(Op::Blob { len, seed, compressible });
		if rng.chance(1, 3) {
			ops.push(Op::FinishBlock);
		}
	}
	FileSpec {
		schema: Ty::Bytes,
		codec,
		approx_block_size: *rng.pick(&[0u32, 8192, 32 * 1024, 64 * 1024, 200_000]),
		sync: gen_sync(rng),
		user_meta: vec![],
		ops,
		end: if rng.bool() { End::IntoInner } else { End::Drop },
		owned_config: rng.chance(1, 4),
		via_write_all: false,
		prelude: if rng.chance(1, 8) { gen_prelude(rng) } else { vec![] },
	}
}

/// Reader kinds worth trying on a file of this layout
pub fn gen_reader_kinds(rng: &mut Rng, file_len: usize, parsed: Option<&Parsed>, n: usize) -> Vec<RKind> {
	let mut out = vec![RKind::Slice];
	for _ in 0..n {
		let k = match rng.below(12) {
			10 => RKind::SliceIter,
			11 => RKind::BufReaderIter,
			0 => RKind::Cursor,
			1 => RKind::Sim(ReaderKind::Direct(RefillPlan::Whole)),
			2 => RKind::Sim(ReaderKind::Direct(RefillPlan::Fixed(1))),
			3 | 4 => RKind::Sim(ReaderKind::Direct(RefillPlan::Fixed(2 + rng.usize(16)))),
			5 => {
				let n = 2 + rng.usize(3);
				RKind::Sim(ReaderKind::Direct(RefillPlan::Cycle((0..n).map(|_| 1 + rng.usize(40)).collect())))
			}
			6 | 7 => {
				// cuts inside block headers, compressed trailers and sync markers
				let mut cuts = vec![];
				if let Some(p) = parsed {
					for b in &p.blocks {
						match rng.below(4) {
							0 => cuts.push(b.off + 1),
							1 => cuts.push(b.payload_off),
							2 => cuts.push(b.sync_off.saturating_sub(1 + rng.usize(8))),
							_ => cuts.push(b.sync_off + 1 + rng.usize(15)),
						}
					}
					cuts.push(p.header_len.saturating_sub(1 + rng.usize(16)));
				}
				if cuts.is_empty() {
					cuts.push(1 + rng.usize(file_len.max(1)));
				}
				cuts.sort();
				cuts.dedup();
				cuts.retain(|&c| c > 0);
				RKind::Sim(ReaderKind::Direct(RefillPlan::Cuts(cuts)))
			}
			_ => RKind::Sim(ReaderKind::BufReader {
				cap: match rng.below(4) {
					0 => 1 + rng.usize(64),
					1 => *rng.pick(&[8191usize, 8192, 8193]),
					2 => 1 + rng.usize(8),
					_ => 64 + rng.usize(1000),
				},
				plan: if rng.bool() { RefillPlan::Whole } else { RefillPlan::Fixed(1 + rng.usize(50)) },
			}),
		};
		out.push(k);
	}
	out
}

// ---------------------------------------------------------------------------------------------
// C11, container mode

use crate::props::c11 as c11;

pub fn c11_container_plans(len: usize, seed: u64) -> Vec<ReaderKind> {
	let mut rng = Rng::from_seed(seed);
	let mut plans = vec![ReaderKind::Direct(RefillPlan::Whole)];
	for k in [1usize, 2, 3, 4, 5, 7, 8, 13, 16, 17, 31, 64, 255] {
		if k < len {
			plans.push(ReaderKind::Direct(RefillPlan::Fixed(k)));
		}
	}
	for _ in 0..6 {
		plans.push(ReaderKind::Direct(RefillPlan::Fixed(1 + rng.usize(len.max(1)))));
	}
	for _ in 0..6 {
		let n = 2 + rng.usize(4);
		plans.push(ReaderKind::Direct(RefillPlan::Cycle((0..n).map(|_| 1 + rng.usize(24)).collect())));
	}
	for cap in [1usize, 2, 3, 5, 8, 16, 64, 100, 8192] {
		plans.push(ReaderKind::BufReader {
			cap,
			plan: if cap % 2 == 0 { RefillPlan::Whole } else { RefillPlan::Fixed(7) },
		});
	}
	plans
}

pub fn gen_c11_container(rng: &mut Rng) -> c11::Scn {
	let profile = SpecProfile {
		poison: false,
		max_ops: 6,
		heavy_codecs: true,
		big_blobs: false,
		// damaged files: keep the work per input byte bounded (no zero-width array elements)
		min_width_one: true,
		push_ops: true,
		scale: 1,
	};
	let spec = gen_filespec(rng, &profile);
	let sink = SimSink::all();
	let _ = run_writer(&spec, &sink, |_, _| true);
	let mut bytes = sink.accepted();
	let mut valid = true;
	let mut gen_kind = format!("container:{}", spec.codec.name());
	match rng.below(4) {
		0 => {
			// what a crashed writer leaves behind
			if !bytes.is_empty() {
				let n = rng.usize(bytes.len());
				bytes.truncate(n);
				valid = false;
				gen_kind.push_str(":truncated");
			}
		}
		1 => {
			if !bytes.is_empty() {
				let i = rng.usize(bytes.len());
				bytes[i] ^= 1 << rng.below(8);
				valid = false;
				gen_kind.push_str(":bitflip");
			}
		}
		_ => {}
	}
	c11::Scn {
		mode: c11::Mode::Container { valid },
		schema: spec.schema.clone(),
		bytes,
		gen_kind,
		tokens: vec![],
		target: crate::world::Target::capture(),
		plans: c11::Plans::Enumerate { seed: rng.next_u64() },
		limits: crate::world::Limits::sim_default(),
	}
}

pub fn exec_c11_container(scn: &c11::Scn, valid: bool, out: &mut Outcome) {
	let env = Env::build(&scn.schema);
	let budget = 64 + scn.bytes.len();
	let slice = read_file(&scn.bytes, &env, &scn.schema, &RKind::Slice, &[], budget);
	out.evals += 1;
	let plans = match &scn.plans {
		c11::Plans::Enumerate { seed } => c11_container_plans(scn.bytes.len(), *seed),
		c11::Plans::Only(p) => p.clone(),
	};
	let mut digest = Fnv::new();
	digest.str(&slice.shape());
	if let Some(p) = &slice.panicked {
		out.fail(format!("C11:container:panic:{}", panic_site(p)), format!("slice reader panicked: {p}"));
		return;
	}
	for kind in &plans {
		let r = read_file(&scn.bytes, &env, &scn.schema, &RKind::Sim(kind.clone()), &[], budget);
		out.evals += 1;
		if std::env::var("VERIF_DEBUG").is_ok() {
			eprintln!("slice: {:?}\nreader {}: {:?}", slice.items, kind.label(), r.items);
		}
		let st = r.source.clone().unwrap_or_default();
		out.steps += st.calls;
		digest.str(&r.shape()).u64(st.digest);
		let mut sig = Fnv::new();
		sig.str("c11c").str(&scn.gen_kind).u64(RKind::Sim(kind.clone()).class()).str(&r.shape_class());
		out.sig(sig);
		out.count("container_reads", 1);
		if let Some(p) = &r.panicked {
			out.fail(format!("C11:container:panic:{}", panic_site(p)), format!("plan {}: {p}", kind.label()));
			break;
		}
		if !st.contract_violations.is_empty() {
			out.fail("C11:container:bufread-contract", format!("{} with {}", st.contract_violations[0], kind.label()));
			break;
		}
		if st.budget_exhausted || r.call_budget_exhausted {
			out.fail("C11:container:livelock", format!("budget exhausted with {}", kind.label()));
			break;
		}
		if valid {
			if slice.items != r.items || slice.ctor_err.is_some() != r.ctor_err.is_some() {
				let kindname = if slice.ended_cleanly() && !r.ended_cleanly() {
					"C11:container:valid-file:slice-ok-reader-err"
				} else if !slice.ended_cleanly() && r.ended_cleanly() {
					"C11:container:valid-file:slice-err-reader-ok"
				} else {
					"C11:container:valid-file:results-differ"
				};
				out.fail(
					kindname,
					format!(
						"plan {}: slice gave {} reader gave {}; first reader error: {:?}",
						kind.label(),
						slice.shape(),
						r.shape(),
						r.items.iter().find_map(|i| if let Item::Err { msg, .. } = i { Some(msg.clone()) } else { None }).or(r.ctor_err.clone())
					),
				);
				break;
			}
			if slice.meta.is_some() && r.meta.is_some() && slice.meta != r.meta {
				out.fail("C11:container:valid-file:metadata-differs", format!("plan {}", kind.label()));
				break;
			}
		} else {
			// damaged input: whole-stream outcome class + prefix relation (DESIGN §7.1)
			// values up to the first error only: after a value-level error the position inside the (corrupted)
			// block is unspecified — it depends on whether the failing field was served from the buffer
			// (not consumed) or through the scratch copy (consumed) — and consumption on Err is not compared
			let upto_err = |run: &ReadRun| -> Vec<Val> {
				run.items.iter().take_while(|i| !matches!(i, Item::Err { .. })).filter_map(|i| if let Item::Val(v) = i { Some(v.clone()) } else { None }).collect()
			};
			let a = upto_err(&slice);
			let b = upto_err(&r);
			let n = a.len().min(b.len());
			if a[..n] != b[..n] {
				out.fail(
					"C11:container:damaged-file:values-not-prefix-related",
					format!("plan {}: slice {} reader {}", kind.label(), slice.shape(), r.shape()),
				);
				break;
			}
			if slice.ended_cleanly() != r.ended_cleanly() {
				out.fail(
					"C11:container:damaged-file:outcome-class-differs",
					format!("plan {}: slice {} reader {}", kind.label(), slice.shape(), r.shape()),
				);
				break;
			}
			out.count("container_damaged_reads", 1);
		}
	}
	out.digest = digest.get();
}

/// C05 / C06 only: turn a clean spec into a `write_all` one now and then
pub fn maybe_via_write_all(rng: &mut Rng, spec: &mut FileSpec) {
	if rng.chance(1, 12) && !spec.ops.is_empty() && spec.ops.iter().all(|o| matches!(o, Op::Serialize { poison: None, .. } | Op::SerializeAll { .. })) {
		spec.via_write_all = true;
		spec.user_meta.clear();
	}
}
