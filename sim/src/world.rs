//! Glue between the simulator's vocabulary and the real crate's public API (datum world).

use crate::ast::{self, Env, Ty};
use crate::capture::{Blind, CapCtx, Capture, HashSeed, IgnoreSeed};
use crate::simio::{RefillPlan, SimSource, SourceFault, SourceStats};
use crate::val::{Poison, PresCfg, PresCtx, Presented, Val};
use serde::de::DeserializeSeed;
use serde_avro_fast::de::{read::ReaderRead, DeserializerConfig, DeserializerState};
use serde_avro_fast::ser::SerializerConfig;
use serde_avro_fast::Schema;
use serde_derive::{Deserialize, Serialize};
use std::cell::Cell;

pub fn parse_schema(ty: &Ty) -> Result<Schema, String> {
	let json = ast::to_json(ty);
	// Two things at once: before one parse in four (a function of the text, so that a scenario replays), this thread
	// first sees schema constructions that FAIL or are thrown away — a text that is not a schema, a hand-built graph
	// with a dangling key under its root record (refused by freeze()), the same fingerprint walk on a graph that is
	// then dropped. Whatever such an operation leaves behind (thread-local scratch state, caches) must not show in
	// the schema parsed next.
	let h = json.bytes().fold(0xcbf2_9ce4_8422_2325u64, |a, b| (a ^ b as u64).wrapping_mul(0x100_0000_01b3));
	if h % 4 == 0 {
		use serde_avro_fast::schema::{Name, Record, RecordField, RegularType, SchemaKey, SchemaMut, SchemaNode};
		let _ = "{\"type\":\"record\",\"name\":\"a.N0\",\"fields\":[{\"name\":\"f0\",\"type\":\"nope\"}]}".parse::<Schema>();
		let dangling = SchemaMut::from_nodes(vec![
			SchemaNode::new(RegularType::Record(Record::new(
				Name::from_fully_qualified_name("a.N0"),
				vec![RecordField::new("f0", SchemaKey::from_idx(1)), RecordField::new("f1", SchemaKey::from_idx(7))],
			))),
			SchemaNode::new(RegularType::Int),
		]);
		// (ONE refused operation, or two: a second walk over the same graph may well put right what the first left behind)
		match (h / 4) % 3 {
			0 => {
				let _ = dangling.canonical_form_rabin_fingerprint();
			}
			1 => {
				let _ = dangling.freeze();
			}
			_ => {
				let _ = dangling.canonical_form_rabin_fingerprint();
				let _ = dangling.freeze();
			}
		}
		if h % 32 == 0 {
			let other = SchemaMut::from_nodes(vec![
				SchemaNode::new(RegularType::Record(Record::new(Name::from_fully_qualified_name("a.N0"), vec![RecordField::new("f0", SchemaKey::from_idx(1))]))),
				SchemaNode::new(RegularType::String),
			]);
			let _ = other.canonical_form_rabin_fingerprint();
			drop(other);
		}
	}
	json.parse::<Schema>().map_err(|e| format!("schema {json} rejected: {e}"))
}

#[derive(Clone, Copy, Debug, PartialEq, Eq, Serialize, Deserialize)]
pub enum Target {
	Capture { enum_as_u64: bool, duration_as_bytes: bool },
	Masked(u64),
	Ignored,
	Blind,
	Hash,
	/// schema-directed like `Capture`, but each node may use an alternative serde hint (seeded)
	AltHints(u64),
	/// `Blind`, except that every string / bytes leaf is REFUSED with serde's stock error quoting the value
	Reject,
}
impl Target {
	pub fn capture() -> Self {
		Target::Capture {
			enum_as_u64: false,
			duration_as_bytes: false,
		}
	}
	pub fn label(&self) -> &'static str {
		match self {
			Target::Capture { .. } => "capture",
			Target::Masked(_) => "masked",
			Target::Ignored => "ignored",
			Target::Blind => "blind",
			Target::Reject => "reject",
			Target::Hash => "hash",
			Target::AltHints(_) => "alt-hints",
		}
	}
}

#[derive(Clone, Copy, Debug, PartialEq, Eq, Serialize, Deserialize)]
pub struct Limits {
	pub max_seq_size: usize,
	pub allowed_depth: usize,
	pub max_alloc_size: usize,
}
impl Limits {
	/// the crate's defaults except for the two knobs that only bound the cost of hostile inputs
	pub fn sim_default() -> Self {
		Limits {
			max_seq_size: 100_000,
			allowed_depth: 64,
			max_alloc_size: 1 << 20,
		}
	}
}

pub use crate::capture::IGNORE_CALLBACK_CAP;

#[derive(Clone, Debug, PartialEq)]
pub struct DecOut {
	pub res: Result<Val, String>,
	/// bytes consumed from the input (meaningful on success)
	pub consumed: usize,
	pub callbacks: u64,
	pub max_depth: u32,
	pub io_error: bool,
}

pub fn run_target_pub<'de, D>(target: Target, env: &Env, ty: &Ty, d: D) -> (Result<Val, D::Error>, u64, u32)
where
	D: serde::Deserializer<'de>,
{
	run_target(target, env, ty, d)
}

fn run_target<'de, D>(target: Target, env: &Env, ty: &Ty, d: D) -> (Result<Val, D::Error>, u64, u32)
where
	D: serde::Deserializer<'de>,
{
	match target {
		Target::Capture { enum_as_u64, duration_as_bytes } => {
			let mut ctx = CapCtx::new(env);
			ctx.enum_as_u64 = enum_as_u64;
			ctx.duration_as_bytes = duration_as_bytes;
			let r = Capture { ty, ctx: &ctx }.deserialize(d);
			(r, ctx.callbacks.get(), ctx.max_depth.get())
		}
		Target::Masked(seed) => {
			let ctx = CapCtx::masked(env, seed);
			let r = Capture { ty, ctx: &ctx }.deserialize(d);
			(r, ctx.callbacks.get(), ctx.max_depth.get())
		}
		Target::AltHints(seed) => {
			let mut ctx = CapCtx::new(env);
			ctx.alt = Some(seed);
			let r = Capture { ty, ctx: &ctx }.deserialize(d);
			(r, ctx.callbacks.get(), ctx.max_depth.get())
		}
		Target::Ignored => {
			let c = Cell::new(0);
			let r = IgnoreSeed { callbacks: &c, cap: IGNORE_CALLBACK_CAP.with(|c| c.get()) }.deserialize(d);
			(r.map(|_| Val::Null), c.get(), 0)
		}
		Target::Blind => {
			let c = Cell::new(0);
			let r = Blind { callbacks: &c }.deserialize(d);
			(r, c.get(), 0)
		}
		Target::Reject => {
			let c = Cell::new(0);
			struct Reset;
			impl Drop for Reset {
				fn drop(&mut self) {
					crate::capture::BLIND_REJECTS_LEAVES.with(|b| b.set(false));
				}
			}
			crate::capture::BLIND_REJECTS_LEAVES.with(|b| b.set(true));
			let _reset = Reset;
			let r = Blind { callbacks: &c }.deserialize(d);
			(r, c.get(), 0)
		}
		Target::Hash => {
			let acc = Cell::new(0xcbf2_9ce4_8422_2325);
			let c = Cell::new(0);
			let r = HashSeed { acc: &acc, callbacks: &c }.deserialize(d);
			(r.map(|_| Val::Long(acc.get() as i64)), c.get(), 0)
		}
	}
}

pub fn decode_slice(schema: &Schema, env: &Env, ty: &Ty, bytes: &[u8], target: Target, limits: Limits) -> DecOut {
	let mut config = DeserializerConfig::new(schema);
	config.max_seq_size = limits.max_seq_size;
	config.allowed_depth = limits.allowed_depth;
	let mut st = DeserializerState::with_config(serde_avro_fast::de::read::SliceRead::new(bytes), config);
	let (r, callbacks, max_depth) = run_target(target, env, ty, st.deserializer());
	let mut rest = st.into_reader();
	let left = std::io::BufRead::fill_buf(&mut rest).map(|b| b.len()).unwrap_or(0);
	let io_error = r.as_ref().err().map_or(false, |e| e.io_error().is_some());
	DecOut {
		res: r.map_err(|e| e.to_string()),
		consumed: bytes.len() - left,
		callbacks,
		max_depth,
		io_error,
	}
}

#[derive(Clone, Debug, PartialEq, Eq, Serialize, Deserialize)]
pub enum ReaderKind {
	/// `SimSource` handed over directly
	Direct(RefillPlan),
	/// `std::io::BufReader::with_capacity(cap, SimSource)`
	BufReader { cap: usize, plan: RefillPlan },
}
impl ReaderKind {
	pub fn label(&self) -> String {
		match self {
			ReaderKind::Direct(p) => format!("direct:{}", p.label()),
			ReaderKind::BufReader { cap, plan } => format!("bufreader({cap}):{}", plan.label()),
		}
	}
}

/// zero-width elements (fixed of size 0, empty strings) still cost a source call each, so the budget is a
/// function of the input length AND of max_seq_size — the same shape as the property's work bound
pub fn step_budget(len: usize, limits: &Limits) -> u64 {
	256u64 + 16 * len as u64 + 8u64.saturating_mul(len as u64 + 2).saturating_mul(limits.max_seq_size as u64 + 2)
}

thread_local! {
	/// while set, `decode_reader` (Direct kinds) goes through the public `Take` trait first: a `ReaderRead` with the
	/// configured allocation cap, `take(len)`, and the deserializer state built on what that returns — the way the
	/// container reader walks into a block, and a way callers with their own framing may use
	pub static VIA_TAKE: Cell<bool> = const { Cell::new(false) };
}

pub fn decode_reader(
	schema: &Schema,
	env: &Env,
	ty: &Ty,
	bytes: &[u8],
	target: Target,
	limits: Limits,
	kind: &ReaderKind,
	faults: &[SourceFault],
) -> (DecOut, SourceStats) {
	let mut config = DeserializerConfig::new(schema);
	config.max_seq_size = limits.max_seq_size;
	config.allowed_depth = limits.allowed_depth;
	match kind {
		ReaderKind::Direct(plan) => {
			let mut src = SimSource::new(bytes, plan.clone()).with_faults(faults.to_vec()).with_step_budget(step_budget(bytes.len(), &limits));
			let (r, callbacks, max_depth) = {
				let mut rr = ReaderRead::new(&mut src);
				rr.max_alloc_size = limits.max_alloc_size;
				if VIA_TAKE.with(|v| v.get()) {
					use serde_avro_fast::de::read::take::Take;
					match rr.take(bytes.len()) {
						Ok(taken) => {
							let mut st = DeserializerState::with_config(taken, config);
							run_target(target, env, ty, st.deserializer())
						}
						Err(e) => (Err(e), 0, 0),
					}
				} else {
					let mut st = DeserializerState::with_config(rr, config);
					run_target(target, env, ty, st.deserializer())
				}
			};
			let consumed = src.position();
			let io_error = r.as_ref().err().map_or(false, |e| e.io_error().is_some());
			(
				DecOut {
					res: r.map_err(|e| e.to_string()),
					consumed,
					callbacks,
					max_depth,
					io_error,
				},
				src.finish(),
			)
		}
		ReaderKind::BufReader { cap, plan } => {
			let mut src = SimSource::new(bytes, plan.clone()).with_faults(faults.to_vec()).with_step_budget(step_budget(bytes.len(), &limits));
			let (r, callbacks, max_depth, buffered) = {
				let br = std::io::BufReader::with_capacity((*cap).max(1), &mut src);
				let mut rr = ReaderRead::new(br);
				rr.max_alloc_size = limits.max_alloc_size;
				let mut st = DeserializerState::with_config(rr, config);
				let (r, c, d) = run_target(target, env, ty, st.deserializer());
				let br = st.into_reader().into_inner();
				(r, c, d, br.buffer().len())
			};
			let consumed = src.position() - buffered;
			let io_error = r.as_ref().err().map_or(false, |e| e.io_error().is_some());
			(
				DecOut {
					res: r.map_err(|e| e.to_string()),
					consumed,
					callbacks,
					max_depth,
					io_error,
				},
				src.finish(),
			)
		}
	}
}

/// Outcome of decoding up to `n` datums, one after the other, through ONE `DeserializerState` (state that a reader
/// carries from one datum to the next — scratch buffer, limits, counters — is part of what is observed)
#[derive(Clone, Debug, PartialEq)]
pub struct StreamOut {
	/// one entry per datum attempted; decoding stops at the first `Err` (unless asked to go on)
	pub items: Vec<Result<Val, String>>,
	/// bytes consumed after each entry of `items` (reader path: `Direct` kinds only, else empty)
	pub positions: Vec<usize>,
	pub consumed: usize,
	pub panicked: Option<String>,
}

/// Like `decode_stream_slice`, but a NEW deserializer state per datum over the rest of the slice (the slice path keeps
/// nothing but its position between datums), going on after errors: the position after every attempt is known.
pub fn decode_stream_slice_stepwise(schema: &Schema, env: &Env, ty: &Ty, bytes: &[u8], n: usize, target: Target, limits: Limits) -> StreamOut {
	let mut items = vec![];
	let mut positions = vec![];
	let mut pos = 0usize;
	let r = crate::runner::catch(|| {
		for _ in 0..n {
			let mut config = DeserializerConfig::new(schema);
			config.max_seq_size = limits.max_seq_size;
			config.allowed_depth = limits.allowed_depth;
			let mut st = DeserializerState::with_config(serde_avro_fast::de::read::SliceRead::new(&bytes[pos..]), config);
			let (r, _, _) = run_target(target, env, ty, st.deserializer());
			let mut rest = st.into_reader();
			let left = std::io::BufRead::fill_buf(&mut rest).map(|b| b.len()).unwrap_or(0);
			pos = bytes.len() - left;
			items.push(r.map_err(|e| e.to_string()));
			positions.push(pos);
			if pos >= bytes.len() {
				break;
			}
		}
	});
	StreamOut { items, positions, consumed: pos, panicked: r.err() }
}

pub fn decode_stream_slice(schema: &Schema, env: &Env, ty: &Ty, bytes: &[u8], n: usize, target: Target, limits: Limits) -> StreamOut {
	decode_stream_slice_ext(schema, env, ty, bytes, n, target, limits, true)
}

/// `stop_on_err = false`: the SAME deserializer state is used again after an error (up to `n` attempts)
pub fn decode_stream_slice_ext(schema: &Schema, env: &Env, ty: &Ty, bytes: &[u8], n: usize, target: Target, limits: Limits, stop_on_err: bool) -> StreamOut {
	let mut config = DeserializerConfig::new(schema);
	config.max_seq_size = limits.max_seq_size;
	config.allowed_depth = limits.allowed_depth;
	let mut items = vec![];
	let mut consumed = 0;
	let r = crate::runner::catch(std::panic::AssertUnwindSafe(|| {
		let mut st = DeserializerState::with_config(serde_avro_fast::de::read::SliceRead::new(bytes), config);
		for _ in 0..n {
			let (r, _, _) = run_target(target, env, ty, st.deserializer());
			let stop = r.is_err() && stop_on_err;
			crate::simalloc::unmeasured(|| items.push(r.map_err(|e| e.to_string())));
			if stop {
				break;
			}
		}
		let mut rest = st.into_reader();
		let left = std::io::BufRead::fill_buf(&mut rest).map(|b| b.len()).unwrap_or(0);
		consumed = bytes.len() - left;
	}));
	StreamOut { items, positions: vec![], consumed, panicked: r.err() }
}

pub fn decode_stream_reader(schema: &Schema, env: &Env, ty: &Ty, bytes: &[u8], n: usize, target: Target, limits: Limits, kind: &ReaderKind) -> (StreamOut, SourceStats) {
	decode_stream_reader_ext(schema, env, ty, bytes, n, target, limits, kind, true)
}

/// `stop_on_err = false`: ONE deserializer state all along, going on after errors (`Direct` kinds record the position
/// after every attempt; decoding stops when the source is exhausted)
pub fn decode_stream_reader_ext(schema: &Schema, env: &Env, ty: &Ty, bytes: &[u8], n: usize, target: Target, limits: Limits, kind: &ReaderKind, stop_on_err: bool) -> (StreamOut, SourceStats) {
	let mut config = DeserializerConfig::new(schema);
	config.max_seq_size = limits.max_seq_size;
	config.allowed_depth = limits.allowed_depth;
	let (plan, cap) = match kind {
		ReaderKind::Direct(p) => (p.clone(), None),
		ReaderKind::BufReader { cap, plan } => (plan.clone(), Some((*cap).max(1))),
	};
	let budget = step_budget(bytes.len(), &limits).saturating_add(64 * n as u64);
	let mut src = SimSource::new(bytes, plan).with_step_budget(budget);
	let handle = src.position_handle();
	let mut items = vec![];
	let mut positions = vec![];
	let mut buffered = 0;
	let r = crate::runner::catch(std::panic::AssertUnwindSafe(|| match cap {
		None => {
			let mut rr = ReaderRead::new(&mut src);
			rr.max_alloc_size = limits.max_alloc_size;
			let mut st = DeserializerState::with_config(rr, config);
			for _ in 0..n {
				let (r, _, _) = run_target(target, env, ty, st.deserializer());
				let stop = r.is_err() && stop_on_err;
				crate::simalloc::unmeasured(|| {
					items.push(r.map_err(|e| e.to_string()));
					positions.push(handle.get());
				});
				if stop || (!stop_on_err && handle.get() >= bytes.len()) {
					break;
				}
			}
		}
		Some(cap) => {
			let br = std::io::BufReader::with_capacity(cap, &mut src);
			let mut rr = ReaderRead::new(br);
			rr.max_alloc_size = limits.max_alloc_size;
			let mut st = DeserializerState::with_config(rr, config);
			for _ in 0..n {
				let (r, _, _) = run_target(target, env, ty, st.deserializer());
				let stop = r.is_err();
				crate::simalloc::unmeasured(|| items.push(r.map_err(|e| e.to_string())));
				if stop {
					break;
				}
			}
			buffered = st.into_reader().into_inner().buffer().len();
		}
	}));
	let consumed = src.position() - buffered;
	(StreamOut { items, positions, consumed, panicked: r.err() }, src.finish())
}

/// Serialize with the real crate into any `Write`
pub fn crate_encode_to<W: std::io::Write>(
	config: &mut SerializerConfig<'_>,
	env: &Env,
	ty: &Ty,
	val: &Val,
	pres: PresCfg,
	poison: Option<Poison>,
	sink: W,
) -> (Result<W, String>, usize, bool, u32) {
	let ctx = PresCtx::new(env, pres, poison);
	let r = serde_avro_fast::to_datum(&Presented::new(val, ty, &ctx), sink, config);
	(r.map_err(|e| e.to_string()), ctx.calls.get(), ctx.poison_fired.get(), ctx.poison_depth.get())
}

pub fn crate_encode(schema: &Schema, env: &Env, ty: &Ty, val: &Val, pres: PresCfg) -> Result<Vec<u8>, String> {
	let mut config = SerializerConfig::new(schema);
	if pres.bytes_as_seq {
		config.allow_slow_sequence_to_bytes();
	}
	crate_encode_to(&mut config, env, ty, val, pres, None, Vec::new()).0
}
