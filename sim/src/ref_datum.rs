//! Reference Avro binary datum codec, written from the specification text only; deliberately naive.
//! Independent of the crate under test (shares no code with it).

use crate::ast::{Env, Ty};
use crate::val::Val;
use serde_derive::{Deserialize, Serialize};

#[derive(Clone, Copy, Debug, PartialEq, Eq, Serialize, Deserialize)]
pub enum TokKind {
	Bool,
	IntVarint,
	LongVarint,
	LenPrefix,
	Payload,
	Float,
	Double,
	Fixed,
	UnionIndex,
	EnumIndex,
	BlockCount,
	BlockSize,
	Duration,
	DecimalInner,
}

#[derive(Clone, Copy, Debug, PartialEq, Eq, Serialize, Deserialize)]
pub struct Token {
	pub off: usize,
	pub len: usize,
	pub kind: TokKind,
}

/// Free choices an encoder has
#[derive(Clone, Copy, Debug, PartialEq, Eq, Serialize, Deserialize, Default)]
pub struct Layout {
	pub seed: u64,
	/// split arrays / maps into several blocks
	pub split_blocks: bool,
	/// use negative counts followed by the block byte size
	pub negative_counts: bool,
	/// pad varints with continuation bytes (legal-but-unusual spelling); 0 = minimal
	pub pad_varints: u8,
}

pub struct Encoder<'a> {
	pub env: &'a Env,
	pub layout: Layout,
	pub out: Vec<u8>,
	pub tokens: Vec<Token>,
	ctr: u64,
}

pub fn zigzag(v: i64) -> u64 {
	((v << 1) ^ (v >> 63)) as u64
}
pub fn unzigzag(v: u64) -> i64 {
	((v >> 1) as i64) ^ -((v & 1) as i64)
}

pub fn write_varint_raw(out: &mut Vec<u8>, mut v: u64, pad_to: usize) {
	let start = out.len();
	loop {
		let b = (v & 0x7f) as u8;
		v >>= 7;
		if v == 0 {
			out.push(b);
			break;
		}
		out.push(b | 0x80);
	}
	// padding: set continuation on the last byte and append zero groups
	while out.len() - start < pad_to && out.len() - start < 10 {
		let last = out.len() - 1;
		out[last] |= 0x80;
		out.push(0);
	}
}

pub fn encode_long(v: i64) -> Vec<u8> {
	let mut o = vec![];
	write_varint_raw(&mut o, zigzag(v), 0);
	o
}

impl<'a> Encoder<'a> {
	pub fn new(env: &'a Env, layout: Layout) -> Self {
		Encoder {
			env,
			layout,
			out: vec![],
			tokens: vec![],
			ctr: 0,
		}
	}
	fn decide(&mut self) -> u64 {
		self.ctr += 1;
		let mut x = self.layout.seed ^ self.ctr.wrapping_mul(0x9E37_79B9_7F4A_7C15);
		crate::prng::splitmix(&mut x)
	}
	fn long(&mut self, v: i64, kind: TokKind) {
		let off = self.out.len();
		let pad = if self.layout.pad_varints > 0 {
			let d = self.decide();
			if d & 3 == 0 {
				(d >> 8) as usize % (self.layout.pad_varints as usize + 1)
			} else {
				0
			}
		} else {
			0
		};
		// ints may only be padded up to 5 bytes to stay within what any decoder accepts for int,
		// unless the layout asks for more (pad_varints > 5 is the "over-long int" spelling)
		write_varint_raw(&mut self.out, zigzag(v), pad);
		let len = self.out.len() - off;
		self.tokens.push(Token { off, len, kind });
	}
	fn raw(&mut self, bytes: &[u8], kind: TokKind) {
		let off = self.out.len();
		self.out.extend_from_slice(bytes);
		self.tokens.push(Token { off, len: bytes.len(), kind });
	}

	pub fn encode(&mut self, ty: &Ty, val: &Val) -> Result<(), String> {
		let env = self.env;
		match (env.resolve(ty), val) {
			(Ty::Null, Val::Null) => Ok(()),
			(Ty::Boolean, Val::Bool(b)) => {
				self.raw(&[*b as u8], TokKind::Bool);
				Ok(())
			}
			(Ty::Int | Ty::Date | Ty::TimeMillis, Val::Int(v)) => {
				self.long(*v as i64, TokKind::IntVarint);
				Ok(())
			}
			(Ty::Long | Ty::TimeMicros | Ty::TimestampMillis | Ty::TimestampMicros, Val::Long(v)) => {
				self.long(*v, TokKind::LongVarint);
				Ok(())
			}
			(Ty::Float, Val::Float(bits)) => {
				self.raw(&bits.to_le_bytes(), TokKind::Float);
				Ok(())
			}
			(Ty::Double, Val::Double(bits)) => {
				self.raw(&bits.to_le_bytes(), TokKind::Double);
				Ok(())
			}
			(Ty::Bytes, Val::Bytes(b)) => {
				self.long(b.len() as i64, TokKind::LenPrefix);
				self.raw(b, TokKind::Payload);
				Ok(())
			}
			(Ty::String | Ty::Uuid, Val::Str(s)) => {
				self.long(s.len() as i64, TokKind::LenPrefix);
				self.raw(s.as_bytes(), TokKind::Payload);
				Ok(())
			}
			(Ty::Fixed { size, .. }, Val::Fixed(b)) => {
				if b.len() != *size as usize {
					return Err("fixed size mismatch".into());
				}
				self.raw(b, TokKind::Fixed);
				Ok(())
			}
			(Ty::Enum { symbols, .. }, Val::Enum(i)) => {
				if i >= symbols {
					return Err("enum index out of range".into());
				}
				self.long(*i as i64, TokKind::EnumIndex);
				Ok(())
			}
			(Ty::Array(t), Val::Array(items)) => {
				let t: &Ty = t;
				self.blocks(items.len(), |enc, i| enc.encode(t, &items[i]))
			}
			(Ty::Map(t), Val::Map(entries)) => {
				let t: &Ty = t;
				self.blocks(entries.len(), |enc, i| {
					let (k, v) = &entries[i];
					enc.long(k.len() as i64, TokKind::LenPrefix);
					enc.raw(k.as_bytes(), TokKind::Payload);
					enc.encode(t, v)
				})
			}
			(Ty::Union(ts), Val::Union(idx, inner)) => {
				let Some(bt) = ts.get(*idx as usize) else {
					return Err("union index out of range".into());
				};
				self.long(*idx as i64, TokKind::UnionIndex);
				self.encode(bt, inner)
			}
			(Ty::Record { fields, .. }, Val::Record(vals)) => {
				if fields.len() != vals.len() {
					return Err("record arity".into());
				}
				for (f, v) in fields.iter().zip(vals) {
					self.encode(&f.1, v)?;
				}
				Ok(())
			}
			(Ty::DecimalBytes { scale, .. }, Val::Decimal { unscaled, scale: s }) => {
				if s != scale {
					return Err("decimal scale mismatch".into());
				}
				let b = minimal_twos_complement(*unscaled);
				self.long(b.len() as i64, TokKind::LenPrefix);
				self.raw(&b, TokKind::Payload);
				Ok(())
			}
			(Ty::DecimalFixed { size, scale, .. }, Val::Decimal { unscaled, scale: s }) => {
				if s != scale {
					return Err("decimal scale mismatch".into());
				}
				let b = sized_twos_complement(*unscaled, *size as usize).ok_or("decimal does not fit fixed")?;
				self.raw(&b, TokKind::Fixed);
				Ok(())
			}
			(Ty::BigDecimal, Val::Decimal { unscaled, scale }) => {
				// bytes( bytes(unscaled big-endian) ++ long(scale) )
				let b = minimal_twos_complement(*unscaled);
				let mut inner = vec![];
				write_varint_raw(&mut inner, zigzag(b.len() as i64), 0);
				inner.extend_from_slice(&b);
				write_varint_raw(&mut inner, zigzag(*scale as i64), 0);
				self.long(inner.len() as i64, TokKind::LenPrefix);
				// separate tokens for the inner length, the unscaled bytes and the scale, so that hostile numbers
				// and refill boundaries can be aimed at each
				let inner_len_bytes = inner.len() - b.len() - {
					let mut t = vec![];
					write_varint_raw(&mut t, zigzag(*scale as i64), 0);
					t.len()
				};
				self.raw(&inner[..inner_len_bytes], TokKind::DecimalInner);
				self.raw(&inner[inner_len_bytes..inner_len_bytes + b.len()], TokKind::Payload);
				self.raw(&inner[inner_len_bytes + b.len()..], TokKind::DecimalInner);
				Ok(())
			}
			(Ty::Duration { .. }, Val::Duration(d)) => {
				let mut raw = [0u8; 12];
				raw[0..4].copy_from_slice(&d[0].to_le_bytes());
				raw[4..8].copy_from_slice(&d[1].to_le_bytes());
				raw[8..12].copy_from_slice(&d[2].to_le_bytes());
				self.raw(&raw, TokKind::Duration);
				Ok(())
			}
			(t, v) => Err(format!("value {v:?} does not conform to {t:?}")),
		}
	}

	fn blocks(&mut self, n: usize, mut item: impl FnMut(&mut Self, usize) -> Result<(), String>) -> Result<(), String> {
		let mut i = 0;
		while i < n {
			let remaining = n - i;
			let count = if self.layout.split_blocks {
				1 + (self.decide() as usize % remaining)
			} else {
				remaining
			};
			let negative = self.layout.negative_counts && self.decide() & 1 == 0;
			if negative {
				// encode the block separately to learn its byte size
				let mut sub = Encoder {
					env: self.env,
					layout: self.layout,
					out: vec![],
					tokens: vec![],
					ctr: self.ctr.wrapping_mul(31).wrapping_add(7),
				};
				for j in i..i + count {
					item(&mut sub, j)?;
				}
				self.long(-(count as i64), TokKind::BlockCount);
				self.long(sub.out.len() as i64, TokKind::BlockSize);
				let base = self.out.len();
				self.out.extend_from_slice(&sub.out);
				self.tokens.extend(sub.tokens.into_iter().map(|t| Token { off: t.off + base, ..t }));
			} else {
				self.long(count as i64, TokKind::BlockCount);
				for j in i..i + count {
					item(self, j)?;
				}
			}
			i += count;
		}
		self.long(0, TokKind::BlockCount);
		Ok(())
	}
}

pub fn encode(env: &Env, ty: &Ty, val: &Val, layout: Layout) -> Result<(Vec<u8>, Vec<Token>), String> {
	let mut e = Encoder::new(env, layout);
	e.encode(ty, val)?;
	Ok((e.out, e.tokens))
}

pub fn minimal_twos_complement(v: i128) -> Vec<u8> {
	let b = v.to_be_bytes();
	let mut start = 0;
	while start < 15 {
		let cur = b[start];
		let next = b[start + 1];
		if (cur == 0x00 && next & 0x80 == 0) || (cur == 0xFF && next & 0x80 != 0) {
			start += 1;
		} else {
			break;
		}
	}
	b[start..].to_vec()
}

pub fn sized_twos_complement(v: i128, size: usize) -> Option<Vec<u8>> {
	let b = v.to_be_bytes();
	if size >= 16 {
		let fill = if v < 0 { 0xFF } else { 0x00 };
		let mut out = vec![fill; size - 16];
		out.extend_from_slice(&b);
		Some(out)
	} else {
		let min = minimal_twos_complement(v);
		if min.len() > size {
			return None;
		}
		if size == 0 {
			return if v == 0 { Some(vec![]) } else { None };
		}
		Some(b[16 - size..].to_vec())
	}
}

pub fn from_twos_complement(b: &[u8]) -> Option<i128> {
	if b.len() > 16 {
		return None;
	}
	if b.is_empty() {
		return Some(0);
	}
	let fill = if b[0] & 0x80 != 0 { 0xFF } else { 0x00 };
	let mut buf = [fill; 16];
	buf[16 - b.len()..].copy_from_slice(b);
	Some(i128::from_be_bytes(buf))
}

// ---------------------------------------------------------------------------------------------
// decoder (strict)

pub struct Decoder<'a> {
	pub env: &'a Env,
	pub buf: &'a [u8],
	pub pos: usize,
	pub depth_budget: u32,
}

impl<'a> Decoder<'a> {
	pub fn new(env: &'a Env, buf: &'a [u8]) -> Self {
		Decoder {
			env,
			buf,
			pos: 0,
			depth_budget: 200,
		}
	}
	fn byte(&mut self) -> Result<u8, String> {
		let b = *self.buf.get(self.pos).ok_or("unexpected end of input")?;
		self.pos += 1;
		Ok(b)
	}
	fn take(&mut self, n: usize) -> Result<&'a [u8], String> {
		if n > self.buf.len() - self.pos {
			return Err("unexpected end of input".into());
		}
		let s = &self.buf[self.pos..self.pos + n];
		self.pos += n;
		Ok(s)
	}
	pub fn long(&mut self) -> Result<i64, String> {
		let mut v: u64 = 0;
		let mut shift = 0;
		for i in 0..10 {
			let b = self.byte()?;
			if i == 9 && b > 1 {
				return Err("varint overflows 64 bits".into());
			}
			v |= ((b & 0x7f) as u64) << shift;
			if b & 0x80 == 0 {
				return Ok(unzigzag(v));
			}
			shift += 7;
		}
		Err("varint longer than 10 bytes".into())
	}
	fn len(&mut self) -> Result<usize, String> {
		let l = self.long()?;
		if l < 0 {
			return Err("negative length".into());
		}
		Ok(l as usize)
	}

	pub fn decode(&mut self, ty: &Ty) -> Result<Val, String> {
		if self.depth_budget == 0 {
			return Err("reference decoder depth budget".into());
		}
		self.depth_budget -= 1;
		let r = self.decode_inner(ty);
		self.depth_budget += 1;
		r
	}

	fn decode_inner(&mut self, ty: &Ty) -> Result<Val, String> {
		let env = self.env;
		Ok(match env.resolve(ty) {
			Ty::Null => Val::Null,
			Ty::Boolean => match self.byte()? {
				0 => Val::Bool(false),
				1 => Val::Bool(true),
				_ => return Err("invalid boolean".into()),
			},
			Ty::Int | Ty::Date | Ty::TimeMillis => {
				let v = self.long()?;
				Val::Int(i32::try_from(v).map_err(|_| "int out of range")?)
			}
			Ty::Long | Ty::TimeMicros | Ty::TimestampMillis | Ty::TimestampMicros => Val::Long(self.long()?),
			Ty::Float => Val::Float(u32::from_le_bytes(self.take(4)?.try_into().unwrap())),
			Ty::Double => Val::Double(u64::from_le_bytes(self.take(8)?.try_into().unwrap())),
			Ty::Bytes => {
				let n = self.len()?;
				Val::Bytes(self.take(n)?.to_vec())
			}
			Ty::String | Ty::Uuid => {
				let n = self.len()?;
				Val::Str(String::from_utf8(self.take(n)?.to_vec()).map_err(|_| "invalid utf-8")?)
			}
			Ty::Fixed { size, .. } => Val::Fixed(self.take(*size as usize)?.to_vec()),
			Ty::Enum { symbols, .. } => {
				let i = self.long()?;
				if i < 0 || i >= *symbols as i64 {
					return Err("enum index out of range".into());
				}
				Val::Enum(i as u16)
			}
			Ty::Array(t) => {
				let mut out = vec![];
				loop {
					let mut count = self.long()?;
					if count == 0 {
						break;
					}
					if count < 0 {
						count = count.checked_neg().ok_or("block count overflow")?;
						let size = self.long()?;
						if size < 0 {
							return Err("negative block size".into());
						}
					}
					if count > 10_000_000 {
						return Err("reference decoder refuses huge block".into());
					}
					for _ in 0..count {
						out.push(self.decode(t)?);
					}
				}
				Val::Array(out)
			}
			Ty::Map(t) => {
				let mut out = vec![];
				loop {
					let mut count = self.long()?;
					if count == 0 {
						break;
					}
					if count < 0 {
						count = count.checked_neg().ok_or("block count overflow")?;
						let size = self.long()?;
						if size < 0 {
							return Err("negative block size".into());
						}
					}
					if count as u64 > self.buf.len() as u64 {
						return Err("block count larger than input can hold".into());
					}
					for _ in 0..count {
						let n = self.len()?;
						let k = String::from_utf8(self.take(n)?.to_vec()).map_err(|_| "invalid utf-8 in key")?;
						out.push((k, self.decode(t)?));
					}
				}
				Val::Map(out)
			}
			Ty::Union(ts) => {
				let i = self.long()?;
				if i < 0 || i as usize >= ts.len() {
					return Err("union index out of range".into());
				}
				Val::Union(i as u16, Box::new(self.decode(&ts[i as usize])?))
			}
			Ty::Record { fields, .. } => {
				let mut out = Vec::with_capacity(fields.len());
				for (_, t) in fields {
					out.push(self.decode(t)?);
				}
				Val::Record(out)
			}
			Ty::Ref(_) => unreachable!(),
			Ty::DecimalBytes { scale, .. } => {
				let n = self.len()?;
				let b = self.take(n)?;
				Val::Decimal {
					unscaled: from_twos_complement(b).ok_or("decimal wider than 16 bytes")?,
					scale: *scale,
				}
			}
			Ty::DecimalFixed { size, scale, .. } => {
				let b = self.take(*size as usize)?;
				Val::Decimal {
					unscaled: from_twos_complement(b).ok_or("decimal wider than 16 bytes")?,
					scale: *scale,
				}
			}
			Ty::BigDecimal => {
				let n = self.len()?;
				let inner = self.take(n)?;
				let mut d = Decoder::new(env, inner);
				let m = d.len()?;
				let b = d.take(m)?;
				let scale = d.long()?;
				if d.pos != inner.len() {
					return Err("big-decimal: trailing bytes".into());
				}
				if !(0..=u32::MAX as i64).contains(&scale) {
					return Err("big-decimal: scale out of range".into());
				}
				Val::Decimal {
					unscaled: from_twos_complement(b).ok_or("decimal wider than 16 bytes")?,
					scale: scale as u32,
				}
			}
			Ty::Duration { .. } => {
				let b = self.take(12)?;
				Val::Duration([
					u32::from_le_bytes(b[0..4].try_into().unwrap()),
					u32::from_le_bytes(b[4..8].try_into().unwrap()),
					u32::from_le_bytes(b[8..12].try_into().unwrap()),
				])
			}
		})
	}
}

pub fn decode(env: &Env, ty: &Ty, bytes: &[u8]) -> Result<(Val, usize), String> {
	let mut d = Decoder::new(env, bytes);
	let v = d.decode(ty)?;
	Ok((v, d.pos))
}

/// Decode exactly `count` values that together occupy all of `bytes`
pub fn decode_many(env: &Env, ty: &Ty, bytes: &[u8], count: usize) -> Result<Vec<Val>, String> {
	let mut d = Decoder::new(env, bytes);
	let mut out = Vec::with_capacity(count.min(1 << 16));
	for i in 0..count {
		out.push(d.decode(ty).map_err(|e| format!("value {i} of {count}: {e} (at byte {})", d.pos))?);
	}
	if d.pos != bytes.len() {
		return Err(format!("{} bytes left after decoding {count} values", bytes.len() - d.pos));
	}
	Ok(out)
}
