//! `SimAlloc`: a measuring `#[global_allocator]`. Counters are thread-local and only active inside
//! `measure`; an optional hard cap (armed only by C04 worker processes) aborts the process with a
//! marker line when one request exceeds it — a failed allocation aborts a Rust process anyway, so
//! "cap exceeded" is the observable form of "allocation failure".

use std::alloc::{GlobalAlloc, Layout, System};
use std::cell::Cell;
use std::sync::atomic::{AtomicUsize, Ordering};

pub struct SimAlloc;

#[derive(Clone, Copy, Default, Debug)]
pub struct AllocStats {
	pub allocs: u64,
	pub live: i64,
	pub peak_live: i64,
	pub largest: usize,
	pub total_bytes: u64,
}

thread_local! {
	static ACTIVE: Cell<bool> = const { Cell::new(false) };
	static STATS: Cell<AllocStats> = const { Cell::new(AllocStats { allocs: 0, live: 0, peak_live: 0, largest: 0, total_bytes: 0 }) };
}

/// 0 = no cap
static HARD_CAP: AtomicUsize = AtomicUsize::new(0);

pub fn set_hard_cap(bytes: usize) {
	HARD_CAP.store(bytes, Ordering::SeqCst);
}

#[inline]
fn on_alloc(size: usize) {
	let cap = HARD_CAP.load(Ordering::Relaxed);
	if cap != 0 && size > cap {
		// no allocation allowed here
		let msg = b"SIMALLOC-CAP-EXCEEDED\n";
		unsafe {
			libc_write(2, msg.as_ptr(), msg.len());
		}
		std::process::abort();
	}
	let _ = ACTIVE.try_with(|a| {
		if a.get() {
			let _ = STATS.try_with(|s| {
				let mut st = s.get();
				st.allocs += 1;
				st.live += size as i64;
				st.total_bytes += size as u64;
				if st.live > st.peak_live {
					st.peak_live = st.live;
				}
				if size > st.largest {
					st.largest = size;
				}
				s.set(st);
			});
		}
	});
}

#[inline]
fn on_dealloc(size: usize) {
	let _ = ACTIVE.try_with(|a| {
		if a.get() {
			let _ = STATS.try_with(|s| {
				let mut st = s.get();
				st.live -= size as i64;
				s.set(st);
			});
		}
	});
}

extern "C" {
	#[link_name = "write"]
	fn libc_write(fd: i32, buf: *const u8, count: usize) -> isize;
}

unsafe impl GlobalAlloc for SimAlloc {
	unsafe fn alloc(&self, layout: Layout) -> *mut u8 {
		on_alloc(layout.size());
		System.alloc(layout)
	}
	unsafe fn dealloc(&self, ptr: *mut u8, layout: Layout) {
		on_dealloc(layout.size());
		System.dealloc(ptr, layout)
	}
	unsafe fn alloc_zeroed(&self, layout: Layout) -> *mut u8 {
		on_alloc(layout.size());
		System.alloc_zeroed(layout)
	}
	unsafe fn realloc(&self, ptr: *mut u8, layout: Layout, new_size: usize) -> *mut u8 {
		// count growth as one allocation of the new size
		on_dealloc(layout.size());
		on_alloc(new_size);
		System.realloc(ptr, layout, new_size)
	}
}

/// Run `f` with allocation accounting on this thread
pub fn measure<T>(f: impl FnOnce() -> T) -> (T, AllocStats) {
	STATS.with(|s| s.set(AllocStats::default()));
	ACTIVE.with(|a| a.set(true));
	let r = f();
	ACTIVE.with(|a| a.set(false));
	let st = STATS.with(|s| s.get());
	(r, st)
}

/// Run `f` (harness bookkeeping) with accounting suspended on this thread, inside a measured section
pub fn unmeasured<T>(f: impl FnOnce() -> T) -> T {
	let was = ACTIVE.with(|a| a.replace(false));
	let r = f();
	ACTIVE.with(|a| a.set(was));
	r
}

/// Guard variant that stops accounting even on unwind
pub struct MeasureGuard;
impl MeasureGuard {
	pub fn start() -> Self {
		STATS.with(|s| s.set(AllocStats::default()));
		ACTIVE.with(|a| a.set(true));
		MeasureGuard
	}
	pub fn stats(&self) -> AllocStats {
		STATS.with(|s| s.get())
	}
}
impl Drop for MeasureGuard {
	fn drop(&mut self) {
		let _ = ACTIVE.try_with(|a| a.set(false));
	}
}
