//! Dynamic values, a generator of values conforming to a sim AST, and `Presented`: the caller stub
//! that implements `serde::Serialize` for a `Val` under a chosen *presentation*, counting serde
//! calls and failing on demand (the caller-failure fault).

use crate::ast::{self, Env, Ty};
use crate::prng::Rng;
use serde::ser::{SerializeMap, SerializeSeq, SerializeStruct, SerializeTuple};
use serde_derive::{Deserialize, Serialize};
use std::cell::Cell;

#[derive(Clone, Debug, PartialEq, Eq, Serialize, Deserialize)]
pub enum Val {
	Null,
	Bool(bool),
	Int(i32),
	Long(i64),
	/// bit pattern
	Float(u32),
	/// bit pattern
	Double(u64),
	Bytes(Vec<u8>),
	Str(String),
	Fixed(Vec<u8>),
	Enum(u16),
	Array(Vec<Val>),
	Map(Vec<(String, Val)>),
	/// in schema order
	Record(Vec<Val>),
	Union(u16, Box<Val>),
	Decimal {
		#[serde(with = "i128_str")]
		unscaled: i128,
		scale: u32,
	},
	Duration([u32; 3]),
}

/// serde_json's `Value` cannot hold an i128: keep it as text
mod i128_str {
	use serde::{Deserialize, Deserializer, Serializer};
	pub fn serialize<S: Serializer>(v: &i128, s: S) -> Result<S::Ok, S::Error> {
		s.serialize_str(&v.to_string())
	}
	pub fn deserialize<'de, D: Deserializer<'de>>(d: D) -> Result<i128, D::Error> {
		let s = String::deserialize(d)?;
		s.parse().map_err(serde::de::Error::custom)
	}
}

#[derive(Clone, Copy, Debug)]
pub struct ValCfg {
	pub max_len: usize,
	pub max_depth: u32,
	/// total node budget
	pub budget: i32,
	/// when > 0, one string / bytes value in three is between boost/2 and boost bytes long
	pub str_boost: usize,
	/// deliberately large-scale values for a schema from `ast::gen_scale_schema`
	pub scale: Option<crate::ast::Scale>,
}
impl ValCfg {
	pub fn small() -> Self {
		ValCfg {
			max_len: 6,
			max_depth: 4,
			budget: 60,
			str_boost: 0,
			scale: None,
		}
	}
	/// the configuration to use with a schema from `ast::gen_scale_schema`
	pub fn with_scale(mut self, scale: Option<crate::ast::Scale>) -> Self {
		if let Some(sc) = scale {
			self.scale = Some(sc);
			self.max_depth = self.max_depth.max(2 * sc.depth + 4);
			self.budget = self.budget.max(64 + 4 * sc.len as i32 + 8 * sc.depth as i32 + sc.width as i32 * 2);
		}
		self
	}
}

const INTERESTING_I64: [i64; 22] = [
	0,
	1,
	-1,
	2,
	-2,
	63,
	64,
	-64,
	-65,
	127,
	128,
	8191,
	8192,
	-8193,
	i32::MAX as i64,
	i32::MIN as i64,
	i32::MAX as i64 + 1,
	i32::MIN as i64 - 1,
	i64::MAX,
	i64::MIN,
	1 << 62,
	-(1 << 62),
];

fn gen_i64(rng: &mut Rng) -> i64 {
	match rng.below(5) {
		0 => *rng.pick(&INTERESTING_I64),
		// where the zig-zag varint grows by a byte: +-2^(7k-1) and their neighbours, k = 1..9
		4 => {
			let k = 1 + rng.below(9) as u32;
			let b = 1i64 << (7 * k - 1);
			*rng.pick(&[b - 1, b, -b, -b - 1, b + 1, -b + 1])
		}
		1 => rng.range(-200, 200),
		2 => {
			let bits = rng.below(63) + 1;
			let v = (rng.next_u64() >> (64 - bits)) as i64;
			if rng.bool() {
				v
			} else {
				v.wrapping_neg()
			}
		}
		_ => rng.next_u64() as i64,
	}
}
fn gen_i32(rng: &mut Rng) -> i32 {
	match rng.below(4) {
		3 => {
			let k = 1 + rng.below(4) as u32;
			let b = 1i32 << (7 * k - 1);
			*rng.pick(&[b - 1, b, -b, -b - 1, i32::MAX, i32::MIN, i32::MAX - 1, i32::MIN + 1])
		}
		0 => {
			let v = *rng.pick(&INTERESTING_I64);
			v.clamp(i32::MIN as i64, i32::MAX as i64) as i32
		}
		1 => rng.range(-200, 200) as i32,
		_ => rng.next_u64() as i32,
	}
}
/// a long string of `n` characters whose UTF-8 widths are mixed (or uniform) in a drawn way: ASCII, 2-, 3- and 4-byte
/// characters — what lands on a refill boundary, in a scratch copy or at a byte offset of an error message
pub fn long_string(n: usize, salt: u64) -> String {
	const WIDE: [char; 6] = ['\u{436}', '\u{e9}', '\u{20ac}', '\u{65e5}', '\u{1F600}', '\u{10348}'];
	match salt % 4 {
		0 => (0..n).map(|i| (b'a' + ((i * 7 + n) % 26) as u8) as char).collect(),
		1 => std::iter::repeat(WIDE[(salt / 4 % 6) as usize]).take(n).collect(),
		_ => (0..n)
			.map(|i| {
				let h = (i as u64).wrapping_mul(0x9E37_79B9_7F4A_7C15).wrapping_add(salt) >> 40;
				if h % 3 == 0 {
					WIDE[(h / 3 % 6) as usize]
				} else {
					(b'a' + (h % 26) as u8) as char
				}
			})
			.collect(),
	}
}

fn gen_string(rng: &mut Rng, max_len: usize) -> String {
	let n = rng.usize(max_len + 1);
	let mut s = String::new();
	for _ in 0..n {
		match rng.below(10) {
			0 => s.push('é'),
			1 => s.push('\u{20AC}'),
			2 => s.push('\u{1F600}'),
			3 => s.push('\0'),
			_ => s.push((b'a' + rng.below(26) as u8) as char),
		}
	}
	s
}

pub fn pow10(n: u32) -> i128 {
	10i128.pow(n)
}

fn gen_unscaled(rng: &mut Rng, max_abs: i128) -> i128 {
	let v: i128 = match rng.below(7) {
		// where the two's complement representation grows by a byte (a sign byte is needed or not): +-2^(8k-1), +-256^k
		// and their neighbours; the extremes of the range
		5 => {
			let k = 1 + rng.below(11) as u32;
			let b = 1i128 << (8 * k - 1);
			*rng.pick(&[b - 1, b, -b, -b - 1, 2 * b - 1, 2 * b, -2 * b, -2 * b + 1])
		}
		6 => *rng.pick(&[max_abs, -max_abs, max_abs - 1, 1 - max_abs, 0, -1]),
		0 => *rng.pick(&[0i128, 1, -1, 127, 128, -128, -129, 255, 256, 32767, 32768, -32768, -32769]),
		1 => rng.range(-1000, 1000) as i128,
		2 => gen_i64(rng) as i128,
		_ => {
			let hi = rng.next_u64() as i128;
			let lo = rng.next_u64() as i128;
			let bits = rng.below(90) + 1;
			let v = ((hi << 64) | lo) & ((1i128 << bits) - 1);
			if rng.bool() {
				v
			} else {
				-v
			}
		}
	};
	v.clamp(-max_abs, max_abs)
}

pub fn gen_val(rng: &mut Rng, env: &Env, ty: &Ty, cfg: &ValCfg) -> Val {
	let mut budget = cfg.budget;
	gen_val_inner(rng, env, ty, cfg, &mut budget, cfg.max_depth)
}

fn gen_val_inner(rng: &mut Rng, env: &Env, ty: &Ty, cfg: &ValCfg, budget: &mut i32, depth: u32) -> Val {
	*budget -= 1;
	let exhausted = *budget <= 0 || depth == 0;
	match env.resolve(ty) {
		Ty::Null => Val::Null,
		Ty::Boolean => Val::Bool(rng.bool()),
		Ty::Int | Ty::Date | Ty::TimeMillis => Val::Int(gen_i32(rng)),
		Ty::Long | Ty::TimeMicros | Ty::TimestampMillis | Ty::TimestampMicros => Val::Long(gen_i64(rng)),
		Ty::Float => Val::Float(match rng.below(4) {
			0 => *rng.pick(&[0u32, 0x8000_0000, 0x7f80_0000, 0xff80_0000, 0x7fc0_0000, 0x7fc0_0001, 0xffff_ffff, 1]),
			1 => (rng.range(-100, 100) as f32 * 0.25).to_bits(),
			_ => rng.next_u64() as u32,
		}),
		Ty::Double => Val::Double(match rng.below(4) {
			0 => *rng.pick(&[0u64, 1 << 63, 0x7ff0_0000_0000_0000, 0x7ff8_0000_0000_0000, 0x7ff8_0000_0000_0001, u64::MAX, 1]),
			1 => (rng.range(-100, 100) as f64 * 0.25).to_bits(),
			_ => rng.next_u64(),
		}),
		Ty::Bytes | Ty::String if cfg.scale.map_or(false, |sc| sc.str_len > 0) && rng.chance(2, 3) => {
			// exact lengths around a threshold
			let sc = cfg.scale.unwrap();
			let n = (sc.str_len as i64 + rng.range(-2, 2)).max(0) as usize;
			if matches!(env.resolve(ty), Ty::Bytes) {
				Val::Bytes(rng.bytes(n))
			} else {
				// (sized in bytes for ASCII; the wide variants are a quarter as many characters)
				let salt = rng.next_u64();
				Val::Str(long_string(if salt % 4 == 0 { n } else { n / 4 + 1 }, salt))
			}
		}
		Ty::Bytes => {
			let n = if cfg.str_boost > 0 && rng.chance(1, 3) { cfg.str_boost / 2 + rng.usize(cfg.str_boost / 2 + 1) } else { rng.usize(cfg.max_len + 1) };
			Val::Bytes(rng.bytes(n))
		}
		Ty::String => {
			if cfg.str_boost > 0 && rng.chance(1, 3) {
				let n = cfg.str_boost / 2 + rng.usize(cfg.str_boost / 2 + 1);
				let salt = rng.next_u64();
				Val::Str(long_string(if salt % 4 == 0 { n } else { n / 3 + 1 }, salt))
			} else {
				Val::Str(gen_string(rng, cfg.max_len))
			}
		}
		Ty::Uuid => Val::Str(format!(
			"{:08x}-{:04x}-{:04x}-{:04x}-{:012x}",
			rng.next_u64() as u32,
			rng.next_u64() as u16,
			rng.next_u64() as u16,
			rng.next_u64() as u16,
			rng.next_u64() & 0xffff_ffff_ffff
		)),
		Ty::Fixed { size, .. } => Val::Fixed(rng.bytes(*size as usize)),
		Ty::Enum { symbols, .. } => Val::Enum(rng.below(*symbols as u64) as u16),
		Ty::Array(t) => {
			let n = match cfg.scale {
				Some(sc) if sc.len > 0 && !exhausted && depth + 2 >= cfg.max_depth => sc.len,
				_ if exhausted => 0,
				_ => rng.usize(cfg.max_len + 1),
			};
			Val::Array((0..n).map(|_| gen_val_inner(rng, env, t, cfg, budget, depth - 1)).collect())
		}
		Ty::Map(t) => {
			let n = match cfg.scale {
				Some(sc) if sc.len > 0 && !exhausted && depth + 2 >= cfg.max_depth => sc.len,
				_ if exhausted => 0,
				_ => rng.usize(cfg.max_len + 1),
			};
			Val::Map(
				(0..n)
					.map(|i| {
						// unique keys (duplicates are legal avro but make comparisons murky)
						let mut k = gen_string(rng, 3);
						k.push_str(&i.to_string());
						(k, gen_val_inner(rng, env, t, cfg, budget, depth - 1))
					})
					.collect(),
			)
		}
		Ty::Union(ts) => {
			let idx = if exhausted {
				// prefer a terminating branch
				ts.iter()
					.position(|t| matches!(t, Ty::Null))
					.or_else(|| ts.iter().position(|t| !matches!(t, Ty::Ref(_) | Ty::Record { .. } | Ty::Array(_) | Ty::Map(_))))
					.unwrap_or(0)
			} else if cfg.scale.map_or(false, |sc| sc.depth > 0) && depth > 3 {
				// a deliberately deep value: keep descending
				ts.iter().rposition(|t| matches!(t, Ty::Ref(_) | Ty::Record { .. })).unwrap_or(0)
			} else {
				rng.usize(ts.len())
			};
			let d = if exhausted { 0 } else { depth - 1 };
			Val::Union(idx as u16, Box::new(gen_val_inner(rng, env, &ts[idx], cfg, budget, d)))
		}
		Ty::Record { fields, .. } => Val::Record(
			fields
				.iter()
				.map(|(_, t)| gen_val_inner(rng, env, t, cfg, budget, depth.saturating_sub(1)))
				.collect(),
		),
		Ty::Ref(_) => unreachable!(),
		Ty::DecimalBytes { scale, .. } => Val::Decimal {
			unscaled: gen_unscaled(rng, pow10(26)),
			scale: *scale,
		},
		Ty::DecimalFixed { size, scale, .. } => {
			let max_abs = if *size >= 12 { pow10(26) } else { (1i128 << (8 * size - 1)) - 1 };
			let mut unscaled = gen_unscaled(rng, max_abs.min(pow10(26)));
			if *size < 12 && rng.chance(1, 12) {
				// the most negative value the fixed can hold
				unscaled = -max_abs - 1;
			}
			Val::Decimal { unscaled, scale: *scale }
		}
		Ty::BigDecimal => Val::Decimal {
			unscaled: gen_unscaled(rng, pow10(18)),
			scale: rng.below(10) as u32,
		},
		Ty::Duration { .. } => Val::Duration([
			rng.next_u64() as u32,
			if rng.bool() { 0 } else { rng.next_u64() as u32 },
			if rng.bool() { u32::MAX } else { rng.below(1000) as u32 },
		]),
	}
}

/// every string / bytes value inside `v` gets exactly `len` bytes (deterministic content)
pub fn set_str_len(v: &mut Val, len: usize, salt: u64) {
	match v {
		Val::Str(s) => *s = long_string(len, salt.wrapping_mul(0x2545_F491_4F6C_DD1D) >> 7),
		// (incompressible)
		Val::Bytes(b) => *b = Rng::from_seed(salt ^ ((len as u64) << 32)).bytes(len),
		Val::Array(items) => items.iter_mut().for_each(|x| set_str_len(x, len, salt)),
		Val::Map(items) => items.iter_mut().for_each(|(_, x)| set_str_len(x, len, salt)),
		Val::Record(items) => items.iter_mut().for_each(|x| set_str_len(x, len, salt)),
		Val::Union(_, x) => set_str_len(x, len, salt),
		_ => {}
	}
}

/// `n` small values for a LONG history, a pure function of the arguments. `pattern` shapes the sizes of the strings /
/// bytes inside them over the course of the history: 0 random small, 1 constant, 2 growing, 3 shrinking, 4 small with a
/// big one every 16 / 64 / 255 / 256 / 257 / 1024 values, 5 sawtooth, 6 one to two KiB each — what recycled, trimmed or capped buffers and
/// high-water marks react to.
pub fn gen_long_vals(seed: u64, env: &Env, ty: &Ty, n: u32, pattern: u8) -> Vec<Val> {
	let mut r = Rng::from_seed(seed);
	let vcfg = ValCfg { max_len: 3, max_depth: 3, budget: 10, str_boost: 0, scale: None };
	let p1 = r.usize(40);
	let d = *r.pick(&[1usize, 2, 4, 16]);
	let period = *r.pick(&[16usize, 64, 255, 256, 257, 1024]);
	let off = r.usize(3);
	let big = *r.pick(&[200usize, 1000, 9000]);
	let m = 2 + r.usize(300);
	(0..n as usize)
		.map(|i| {
			let mut v = gen_val(&mut r, env, ty, &vcfg);
			let len = match pattern {
				1 => Some(p1),
				2 => Some(i / d),
				3 => Some((n as usize - i) / d),
				4 => Some(if (i + off) % period == 0 && i > 0 { big } else { p1 % 8 }),
				5 => Some(i % m),
				// one to two KiB each, never two alike in a row (bytes are incompressible: blocks that no codec shrinks)
				6 => Some(1024 + (i * 37 + p1) % 700),
				_ => None,
			};
			if let Some(l) = len {
				set_str_len(&mut v, l, i as u64);
			}
			v
		})
		.collect()
}

pub fn decimal_to_string(unscaled: i128, scale: u32) -> String {
	let neg = unscaled < 0;
	let digits = unscaled.unsigned_abs().to_string();
	let scale = scale as usize;
	let mut s = String::new();
	if neg {
		s.push('-');
	}
	if scale == 0 {
		s.push_str(&digits);
	} else if digits.len() > scale {
		s.push_str(&digits[..digits.len() - scale]);
		s.push('.');
		s.push_str(&digits[digits.len() - scale..]);
	} else {
		s.push_str("0.");
		for _ in 0..scale - digits.len() {
			s.push('0');
		}
		s.push_str(&digits);
	}
	s
}

pub fn parse_decimal(s: &str) -> Option<(i128, u32)> {
	let (neg, body) = match s.strip_prefix('-') {
		Some(b) => (true, b),
		None => (false, s),
	};
	let (int, frac) = match body.split_once('.') {
		Some((i, f)) => (i, f),
		None => (body, ""),
	};
	if int.is_empty() || !int.bytes().all(|b| b.is_ascii_digit()) || !frac.bytes().all(|b| b.is_ascii_digit()) {
		return None;
	}
	let mut digits = String::from(int);
	digits.push_str(frac);
	let v: i128 = digits.parse().ok()?;
	Some((if neg { -v } else { v }, frac.len() as u32))
}

// ---------------------------------------------------------------------------------------------
// Presentation

#[derive(Clone, Copy, Debug, PartialEq, Eq, Serialize, Deserialize, Default)]
pub struct PresCfg {
	pub seed: u64,
	/// present record fields in a permuted order
	pub reorder: bool,
	/// omit fields that are null / null-branch of a union
	pub omit_nullable: bool,
	/// records through `serialize_map` with string keys instead of `serialize_struct`
	pub record_as_map: bool,
	/// `serialize_seq(None)` / `serialize_map(None)`
	pub len_none: bool,
	/// bytes / fixed element-wise through `serialize_seq` (needs allow_slow_sequence_to_bytes)
	pub bytes_as_seq: bool,
	/// per node, a coin decides whether the value is presented through ANOTHER serde call that the crate documents
	/// as equivalent for that schema node: integers of other widths, `char` / `bytes` for strings, `str` for bytes and
	/// fixed, index / unit struct for enum symbols, tuples and tuple structs for arrays, struct variants for records,
	/// `Some(value)` for the non-null branch of a two-branch nullable union, unit struct / unit variant for null
	#[serde(default)]
	pub alt_calls: bool,
}
impl PresCfg {
	pub fn plain() -> Self {
		Self::default()
	}
	pub fn random(rng: &mut Rng, allow_bytes_as_seq: bool) -> Self {
		PresCfg {
			seed: rng.next_u64(),
			reorder: rng.chance(2, 3),
			omit_nullable: rng.chance(1, 3),
			record_as_map: rng.chance(1, 3),
			len_none: rng.chance(1, 3),
			bytes_as_seq: allow_bytes_as_seq && rng.chance(1, 2),
			alt_calls: rng.chance(1, 2),
		}
	}
}

#[derive(Clone, Copy, Debug, PartialEq, Eq, Serialize, Deserialize)]
pub enum PoisonKind {
	/// `Serialize::serialize` returns `Err(custom)`
	Err,
	/// presents a value no schema node accepts
	WrongType,
	/// (record node) one non-nullable field is left out; elsewhere behaves like `Err`
	MissingField,
	/// (record node) the last presented field is presented twice; elsewhere behaves like `Err`
	DupField,
	/// (array / bytes-as-sequence node) the sequence is begun, half of its elements are presented,
	/// then the caller fails without calling `end()`; elsewhere behaves like `Err`
	AbortMidSeq,
}

#[derive(Clone, Copy, Debug, PartialEq, Eq, Serialize, Deserialize)]
pub struct Poison {
	pub at_call: usize,
	pub kind: PoisonKind,
}

thread_local! {
	/// armed by a check before it starts a serialization: at serde call `.0` of the NEXT presentation created on this
	/// thread, the caller's `Serialize` impl runs `.1` (it serializes something else, with another configuration, in
	/// the middle of the outer serialization: re-entrancy). Taken by `PresCtx::new`, so nested presentations are not
	/// affected.
	pub static REENTER: std::cell::RefCell<Option<(usize, Box<dyn Fn()>)>> = const { std::cell::RefCell::new(None) };
}

/// Shared, per-serialization context of a presentation
pub struct PresCtx<'a> {
	reenter: Option<(usize, Box<dyn Fn()>)>,
	pub env: &'a Env,
	pub cfg: PresCfg,
	pub poison: Option<Poison>,
	pub calls: Cell<usize>,
	pub poison_fired: Cell<bool>,
	/// nesting depth of record nodes at the moment the poison fired
	pub depth: Cell<u32>,
	pub poison_depth: Cell<u32>,
	/// the next node is presented through its canonical call (it sits directly under `Some(..)`, where the union branch
	/// is found from the call made)
	pub canonical_next: Cell<bool>,
}
impl<'a> PresCtx<'a> {
	pub fn new(env: &'a Env, cfg: PresCfg, poison: Option<Poison>) -> Self {
		PresCtx {
			reenter: REENTER.with(|r| r.borrow_mut().take()),
			env,
			cfg,
			poison,
			calls: Cell::new(0),
			poison_fired: Cell::new(false),
			depth: Cell::new(0),
			poison_depth: Cell::new(0),
			canonical_next: Cell::new(false),
		}
	}
	fn decide(&self, salt: u64, call: usize) -> u64 {
		let mut x = self.cfg.seed ^ salt.wrapping_mul(0x9E37_79B9_7F4A_7C15) ^ (call as u64).wrapping_mul(0xD134_2543_DE82_EF95);
		crate::prng::splitmix(&mut x)
	}
}

pub struct Presented<'a> {
	pub val: &'a Val,
	pub ty: &'a Ty,
	pub ctx: &'a PresCtx<'a>,
}

impl<'a> Presented<'a> {
	pub fn new(val: &'a Val, ty: &'a Ty, ctx: &'a PresCtx<'a>) -> Self {
		Presented { val, ty, ctx }
	}
	fn child(&self, val: &'a Val, ty: &'a Ty) -> Presented<'a> {
		Presented { val, ty, ctx: self.ctx }
	}
}

struct ByteElems<'a>(&'a [u8]);

fn mismatch<E: serde::ser::Error>(val: &Val, ty: &Ty) -> E {
	E::custom(format_args!("HARNESS: value {val:?} does not conform to {ty:?}"))
}

impl<'a> serde::Serialize for Presented<'a> {
	fn serialize<S: serde::Serializer>(&self, s: S) -> Result<S::Ok, S::Error> {
		use serde::ser::Error;
		let ctx = self.ctx;
		let call = ctx.calls.get();
		ctx.calls.set(call + 1);
		if let Some((at, f)) = &ctx.reenter {
			if *at == call {
				f();
			}
		}
		if call == 0 {
			crate::capture::HUMAN_READABLE.with(|h| {
				let (_, de) = h.get();
				h.set((Some(s.is_human_readable()), de));
			});
		}
		let mut record_poison: Option<PoisonKind> = None;
		if let Some(p) = ctx.poison {
			if p.at_call == call {
				ctx.poison_fired.set(true);
				ctx.poison_depth.set(ctx.depth.get());
				let is_record = matches!(ctx.env.resolve(self.ty), Ty::Record { .. });
				match p.kind {
					PoisonKind::Err => return Err(S::Error::custom("poisoned value")),
					PoisonKind::WrongType => return s.serialize_u128(u128::MAX),
					PoisonKind::MissingField | PoisonKind::DupField if !is_record => {
						return Err(S::Error::custom("poisoned value"))
					}
					PoisonKind::AbortMidSeq => {
						return match (ctx.env.resolve(self.ty), self.val) {
							(Ty::Array(t), Val::Array(items)) => {
								let mut seq = s.serialize_seq(None)?;
								for it in &items[..items.len() / 2] {
									seq.serialize_element(&self.child(it, t))?;
								}
								Err(S::Error::custom("poisoned value (sequence abandoned)"))
							}
							(Ty::Bytes, Val::Bytes(b)) | (Ty::Fixed { .. }, Val::Fixed(b)) if ctx.cfg.bytes_as_seq => {
								let mut seq = s.serialize_seq(None)?;
								for byte in &b[..b.len() / 2] {
									seq.serialize_element(byte)?;
								}
								Err(S::Error::custom("poisoned value (byte sequence abandoned)"))
							}
							_ => Err(S::Error::custom("poisoned value")),
						};
					}
					k => record_poison = Some(k),
				}
			}
		}
		let ty = ctx.env.resolve(self.ty);
		// alternative (documented-equivalent) serde calls: 0 = the canonical one
		let alt = if ctx.cfg.alt_calls && !ctx.canonical_next.replace(false) { ctx.decide(10, call) % 8 } else { 0 };
		match (ty, self.val) {
			(Ty::Null, Val::Null) => match alt {
				5 => s.serialize_unit_struct("Nothing"),
				6 => s.serialize_unit_variant("Nothing", 0, "Null"),
				_ => {
					if ctx.decide(1, call) & 1 == 0 {
						s.serialize_unit()
					} else {
						s.serialize_none()
					}
				}
			},
			(Ty::Boolean, Val::Bool(b)) => s.serialize_bool(*b),
			(Ty::Int | Ty::Date | Ty::TimeMillis, Val::Int(v)) => match alt {
				1 if i8::try_from(*v).is_ok() => s.serialize_i8(*v as i8),
				2 if i16::try_from(*v).is_ok() => s.serialize_i16(*v as i16),
				3 if u8::try_from(*v).is_ok() => s.serialize_u8(*v as u8),
				4 if u16::try_from(*v).is_ok() => s.serialize_u16(*v as u16),
				5 if *v >= 0 => s.serialize_u32(*v as u32),
				5 => s.serialize_i64(*v as i64),
				6 if *v >= 0 => s.serialize_u64(*v as u64),
				6 => s.serialize_i128(*v as i128),
				7 if *v >= 0 => s.serialize_u128(*v as u128),
				_ => s.serialize_i32(*v),
			},
			(Ty::Long | Ty::TimeMicros | Ty::TimestampMillis | Ty::TimestampMicros, Val::Long(v)) => match alt {
				1 if i8::try_from(*v).is_ok() => s.serialize_i8(*v as i8),
				2 if i32::try_from(*v).is_ok() => s.serialize_i32(*v as i32),
				3 if u16::try_from(*v).is_ok() => s.serialize_u16(*v as u16),
				4 if u32::try_from(*v).is_ok() => s.serialize_u32(*v as u32),
				5 if *v >= 0 => s.serialize_u64(*v as u64),
				6 => s.serialize_i128(*v as i128),
				7 if *v >= 0 => s.serialize_u128(*v as u128),
				_ => s.serialize_i64(*v),
			},
			// (an f64 is accepted for an Avro float and narrowed: exact for every non-NaN f32)
			(Ty::Float, Val::Float(bits)) if alt >= 5 && !f32::from_bits(*bits).is_nan() => s.serialize_f64(f32::from_bits(*bits) as f64),
			(Ty::Float, Val::Float(bits)) => s.serialize_f32(f32::from_bits(*bits)),
			(Ty::Double, Val::Double(bits)) => s.serialize_f64(f64::from_bits(*bits)),
			(Ty::Bytes, Val::Bytes(b)) | (Ty::Fixed { .. }, Val::Fixed(b)) => {
				if ctx.cfg.bytes_as_seq && ctx.decide(2, call) & 1 == 0 {
					let len_none = ctx.cfg.len_none && ctx.decide(3, call) & 1 == 0;
					let mut seq = s.serialize_seq(if len_none { None } else { Some(b.len()) })?;
					for byte in ByteElems(b).0 {
						seq.serialize_element(byte)?;
					}
					seq.end()
				} else if let (5..=7, Ok(text)) = (alt, std::str::from_utf8(b)) {
					// bytes and fixed accept a str (its UTF-8 bytes)
					s.serialize_str(text)
				} else {
					s.serialize_bytes(b)
				}
			}
			(Ty::String | Ty::Uuid, Val::Str(v)) => match alt {
				1 | 2 if v.chars().count() == 1 => s.serialize_char(v.chars().next().unwrap()),
				3 | 4 if matches!(ty, Ty::String) => s.serialize_bytes(v.as_bytes()),
				5 => s.collect_str(v),
				_ => s.serialize_str(v),
			},
			(Ty::Enum { name, symbols }, Val::Enum(i)) => {
				if *i >= *symbols {
					return Err(mismatch(self.val, ty));
				}
				match alt {
					1 => s.serialize_u32(*i as u32),
					2 => s.serialize_i64(*i as i64),
					3 if *i <= 255 => s.serialize_u8(*i as u8),
					4 => s.serialize_unit_struct(ast::symbol(*i)),
					_ => {
						if ctx.decide(4, call) & 1 == 0 {
							s.serialize_str(ast::symbol(*i))
						} else {
							s.serialize_unit_variant(ast::type_name(*name), *i as u32, ast::symbol(*i))
						}
					}
				}
			}
			(Ty::Array(t), Val::Array(items)) if alt == 1 || alt == 2 => {
				// a tuple / tuple struct of that many elements
				use serde::ser::{SerializeTuple, SerializeTupleStruct};
				if alt == 1 {
					let mut seq = s.serialize_tuple(items.len())?;
					for it in items {
						seq.serialize_element(&self.child(it, t))?;
					}
					seq.end()
				} else {
					let mut seq = s.serialize_tuple_struct("Items", items.len())?;
					for it in items {
						seq.serialize_field(&self.child(it, t))?;
					}
					seq.end()
				}
			}
			(Ty::Array(t), Val::Array(items)) => {
				let len_none = ctx.cfg.len_none && ctx.decide(3, call) & 1 == 0;
				let mut seq = s.serialize_seq(if len_none { None } else { Some(items.len()) })?;
				for it in items {
					seq.serialize_element(&self.child(it, t))?;
				}
				seq.end()
			}
			(Ty::Map(t), Val::Map(entries)) => {
				let len_none = ctx.cfg.len_none && ctx.decide(3, call) & 1 == 0;
				let mut map = s.serialize_map(if len_none { None } else { Some(entries.len()) })?;
				for (k, v) in entries {
					if ctx.decide(5, call) & 1 == 0 {
						map.serialize_entry(k.as_str(), &self.child(v, t))?;
					} else {
						map.serialize_key(k.as_str())?;
						map.serialize_value(&self.child(v, t))?;
					}
				}
				map.end()
			}
			(Ty::Union(ts), Val::Union(idx, inner)) => {
				let Some(bt) = ts.get(*idx as usize) else {
					return Err(mismatch(self.val, ty));
				};
				match ctx.env.resolve(bt) {
					// the null branch is selected by type (there is at most one)
					Ty::Null => {
						// the inner Presented is not invoked: keep call numbering simple by
						// counting it here
						ctx.calls.set(ctx.calls.get() + 1);
						if ctx.decide(1, call) & 1 == 0 {
							s.serialize_unit()
						} else {
							s.serialize_none()
						}
					}
					// `Option<T>` for ["null", T]: the branch is found from the call `T` makes, so `T` presents itself
					// against the union node, through its canonical call
					rb if alt >= 4
						&& ts.len() == 2
						&& ts.iter().any(|t| matches!(ctx.env.resolve(t), Ty::Null))
						&& matches!(rb, Ty::Boolean | Ty::Int | Ty::Long | Ty::Float | Ty::Double | Ty::String | Ty::Bytes | Ty::Array(_) | Ty::Map(_) | Ty::Record { .. }) =>
					{
						ctx.canonical_next.set(true);
						s.serialize_some(&self.child(inner, bt))
					}
					_ if alt == 1 => s.serialize_newtype_struct(ast::branch_type_name(ctx.env, bt), &self.child(inner, bt)),
					_ => s.serialize_newtype_variant(
						"U",
						*idx as u32,
						ast::branch_type_name(ctx.env, bt),
						&self.child(inner, bt),
					),
				}
			}
			(Ty::Record { name, fields }, Val::Record(vals)) => {
				if vals.len() != fields.len() {
					return Err(mismatch(self.val, ty));
				}
				// presentation order
				let mut order: Vec<usize> = (0..fields.len()).collect();
				if ctx.cfg.reorder {
					let mut r = Rng::from_seed(ctx.decide(6, call));
					r.shuffle(&mut order);
				}
				if ctx.cfg.omit_nullable {
					let d = ctx.decide(7, call);
					order.retain(|&i| {
						let nullable_and_null = match (ctx.env.resolve(&fields[i].1), &vals[i]) {
							(Ty::Null, Val::Null) => true,
							(Ty::Union(ts), Val::Union(b, _)) => {
								matches!(ts.get(*b as usize).map(|t| ctx.env.resolve(t)), Some(Ty::Null))
							}
							_ => false,
						};
						!(nullable_and_null && (d >> (i % 60)) & 1 == 0)
					});
				}
				match record_poison {
					Some(PoisonKind::MissingField) => {
						// leave out the first presented field that is not nullable
						if let Some(pos) = order.iter().position(|&i| {
							!matches!(ctx.env.resolve(&fields[i].1), Ty::Null)
								&& !matches!(ctx.env.resolve(&fields[i].1), Ty::Union(ts) if ts.iter().any(|t| matches!(ctx.env.resolve(t), Ty::Null)))
						}) {
							order.remove(pos);
						} else {
							return Err(S::Error::custom("poisoned value"));
						}
					}
					Some(PoisonKind::DupField) => {
						if let Some(&last) = order.last() {
							order.push(last);
						} else {
							return Err(S::Error::custom("poisoned value"));
						}
					}
					_ => {}
				}
				ctx.depth.set(ctx.depth.get() + 1);
				let res = if ctx.cfg.record_as_map && ctx.decide(8, call) & 1 == 0 {
					(|| {
						let mut map = s.serialize_map(Some(order.len()))?;
						for &i in &order {
							map.serialize_entry(ast::field_name(fields[i].0), &self.child(&vals[i], &fields[i].1))?;
						}
						map.end()
					})()
				} else if alt == 3 {
					(|| {
						use serde::ser::SerializeStructVariant;
						let mut st = s.serialize_struct_variant("Any", 0, ast::type_name(*name), order.len())?;
						for &i in &order {
							st.serialize_field(ast::field_name(fields[i].0), &self.child(&vals[i], &fields[i].1))?;
						}
						st.end()
					})()
				} else {
					(|| {
						let mut st = s.serialize_struct(ast::type_name(*name), order.len())?;
						for &i in &order {
							st.serialize_field(ast::field_name(fields[i].0), &self.child(&vals[i], &fields[i].1))?;
						}
						st.end()
					})()
				};
				ctx.depth.set(ctx.depth.get() - 1);
				res
			}
			// a whole number may be given to a decimal as an integer (it is multiplied by 10^scale)
			(Ty::DecimalBytes { .. } | Ty::DecimalFixed { .. }, Val::Decimal { unscaled, scale }) if (1..=4).contains(&alt) && *scale <= 20 && *unscaled % pow10(*scale) == 0 => {
				let whole = *unscaled / pow10(*scale);
				match alt {
					1 if i64::try_from(whole).is_ok() => s.serialize_i64(whole as i64),
					2 if u64::try_from(whole).is_ok() => s.serialize_u64(whole as u64),
					3 if i32::try_from(whole).is_ok() => s.serialize_i32(whole as i32),
					_ => s.serialize_i128(whole),
				}
			}
			(Ty::DecimalBytes { .. } | Ty::DecimalFixed { .. } | Ty::BigDecimal, Val::Decimal { unscaled, scale }) => {
				s.serialize_str(&decimal_to_string(*unscaled, *scale))
			}
			(Ty::Duration { .. }, Val::Duration(d)) => match ctx.decide(9, call) % 3 {
				0 => {
					let mut t = s.serialize_tuple(3)?;
					t.serialize_element(&d[0])?;
					t.serialize_element(&d[1])?;
					t.serialize_element(&d[2])?;
					t.end()
				}
				1 => {
					let mut st = s.serialize_struct("Duration", 3)?;
					st.serialize_field("days", &d[1])?;
					st.serialize_field("months", &d[0])?;
					st.serialize_field("milliseconds", &d[2])?;
					st.end()
				}
				_ => {
					let mut raw = [0u8; 12];
					raw[0..4].copy_from_slice(&d[0].to_le_bytes());
					raw[4..8].copy_from_slice(&d[1].to_le_bytes());
					raw[8..12].copy_from_slice(&d[2].to_le_bytes());
					s.serialize_bytes(&raw)
				}
			},
			_ => Err(mismatch(self.val, ty)),
		}
	}
}



/// Which large-scale features a value has (probe names): what small random generation does not reach
pub fn scale_classes(v: &Val, out: &mut Vec<&'static str>) {
	fn add(out: &mut Vec<&'static str>, k: &'static str) {
		if !out.contains(&k) {
			out.push(k);
		}
	}
	fn go(v: &Val, depth: u32, out: &mut Vec<&'static str>) {
		if depth == 24 {
			add(out, "scale_value_nested_24_deep");
		}
		match v {
			Val::Bytes(b) | Val::Fixed(b) => {
				if b.len() >= 8190 {
					add(out, "scale_field_of_8_kib_or_more");
				}
				if b.len() > 65536 {
					add(out, "scale_field_above_64_kib");
				}
			}
			Val::Str(s) => {
				if s.len() >= 8190 {
					add(out, "scale_field_of_8_kib_or_more");
				}
				if s.len() > 65536 {
					add(out, "scale_field_above_64_kib");
				}
			}
			Val::Enum(i) if *i >= 64 => add(out, "scale_enum_index_of_two_bytes"),
			Val::Array(items) => {
				if items.len() >= 64 {
					add(out, "scale_block_count_of_two_bytes");
				}
				if items.len() >= 8192 {
					add(out, "scale_block_count_of_three_bytes");
				}
				items.iter().for_each(|x| go(x, depth + 1, out));
			}
			Val::Map(items) => {
				if items.len() >= 64 {
					add(out, "scale_block_count_of_two_bytes");
				}
				if items.len() >= 8192 {
					add(out, "scale_block_count_of_three_bytes");
				}
				items.iter().for_each(|(_, x)| go(x, depth + 1, out));
			}
			Val::Record(fs) => {
				if fs.len() >= 64 {
					add(out, "scale_record_of_64_fields_or_more");
				}
				fs.iter().for_each(|x| go(x, depth + 1, out));
			}
			Val::Union(i, inner) => {
				if *i >= 64 {
					add(out, "scale_union_index_of_two_bytes");
				}
				go(inner, depth + 1, out);
			}
			_ => {}
		}
	}
	go(v, 0, out);
}


/// `got` was captured by a target that deserializes some record fields into an ignoring visitor (they come back as the
/// marker string): everything else must be exactly `want`
pub fn eq_modulo_mask(got: &Val, want: &Val) -> bool {
	match (got, want) {
		(Val::Str(m), _) if m == crate::capture::MASKED => true,
		(Val::Array(a), Val::Array(b)) => a.len() == b.len() && a.iter().zip(b).all(|(x, y)| eq_modulo_mask(x, y)),
		(Val::Map(a), Val::Map(b)) => a.len() == b.len() && a.iter().zip(b).all(|((ka, x), (kb, y))| ka == kb && eq_modulo_mask(x, y)),
		(Val::Record(a), Val::Record(b)) => a.len() == b.len() && a.iter().zip(b).all(|(x, y)| eq_modulo_mask(x, y)),
		(Val::Union(i, x), Val::Union(j, y)) => i == j && eq_modulo_mask(x, y),
		(a, b) => a == b,
	}
}
