pub mod c11;
