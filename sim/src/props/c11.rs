//! C11 — slice and streamed input decode identically, however the stream is chunked.
//! Schedule space: the partition of the byte stream into `fill_buf` chunks; enumerated per scenario.

use crate::ast::{self, Env, GenCfg, Ty};
use crate::container::{self, FileSpec};
use crate::prng::{Fnv, Rng};
use crate::ref_datum::{self, Layout, TokKind, Token};
use crate::runner::{Outcome, Prop, Tier};
use crate::simio::RefillPlan;
use crate::val::{self, ValCfg};
use crate::world::{self, DecOut, Limits, ReaderKind, Target};
use serde_derive::{Deserialize, Serialize};

#[derive(Clone, Debug, Serialize, Deserialize, PartialEq)]
pub enum Mode {
	Datum,
	SingleObject,
	/// `bytes` is a whole container file; `valid` says whether it is an undamaged one
	Container { valid: bool },
	/// a LONG stream: `n` datums (drawn from `seed`, size pattern `pattern`: `val::gen_long_vals`) encoded one after the
	/// other and decoded through ONE `DeserializerState` per path; `bytes` is left empty (derived at execution time)
	Stream { seed: u64, n: u32, pattern: u8 },
}

#[derive(Clone, Debug, Serialize, Deserialize, PartialEq)]
pub enum Plans {
	/// every Fixed(k), boundary-targeted cuts, random cycles, BufReader capacities
	Enumerate { seed: u64 },
	Only(Vec<ReaderKind>),
}

#[derive(Clone, Debug, Serialize, Deserialize)]
pub struct Scn {
	pub mode: Mode,
	pub schema: Ty,
	pub bytes: Vec<u8>,
	pub gen_kind: String,
	pub tokens: Vec<Token>,
	pub target: Target,
	pub plans: Plans,
	pub limits: Limits,
}

pub struct C11;

pub const TRAILER: [u8; 8] = [0x81, 0x00, 0x7f, 0xff, 0x02, 0x80, 0x01, 0x55];

pub fn enumerate_plans(len: usize, tokens: &[Token], seed: u64, exhaustive_limit: usize) -> Vec<ReaderKind> {
	let mut plans = vec![ReaderKind::Direct(RefillPlan::Whole)];
	let mut rng = Rng::from_seed(seed);
	if len <= exhaustive_limit {
		for k in 1..=len.max(1) {
			plans.push(ReaderKind::Direct(RefillPlan::Fixed(k)));
		}
	} else {
		for k in [1usize, 2, 3, 4, 5, 7, 8, 9, 15, 16, 17, 31, 32, 33, 63, 64, 65, 127, 128, 129, 255, 256, 257] {
			if k < len {
				plans.push(ReaderKind::Direct(RefillPlan::Fixed(k)));
			}
		}
		for _ in 0..6 {
			plans.push(ReaderKind::Direct(RefillPlan::Fixed(1 + rng.usize(len))));
		}
		for k in [4095usize, 4096, 8191, 8192, 8193] {
			if k < len {
				plans.push(ReaderKind::Direct(RefillPlan::Fixed(k)));
				plans.push(ReaderKind::BufReader { cap: k, plan: RefillPlan::Whole });
			}
		}
	}
	// one refill boundary after each byte inside each multi-byte token
	let mut tok_idx: Vec<usize> = (0..tokens.len()).filter(|&i| tokens[i].len >= 2).collect();
	if tok_idx.len() > 48 {
		rng.shuffle(&mut tok_idx);
		tok_idx.truncate(48);
		tok_idx.sort();
	}
	for i in tok_idx {
		let t = tokens[i];
		let inner: Vec<usize> = if t.len <= 17 {
			(1..t.len).collect()
		} else {
			vec![1, 2, t.len / 2, t.len - 2, t.len - 1]
		};
		for o in inner {
			plans.push(ReaderKind::Direct(RefillPlan::Cuts(vec![t.off + o])));
		}
		// boundary exactly before and after (token starts a fresh chunk / ends one)
		if t.off > 0 {
			plans.push(ReaderKind::Direct(RefillPlan::Cuts(vec![t.off, t.off + 1])));
		}
	}
	for _ in 0..8 {
		let n = 2 + rng.usize(4);
		let cyc: Vec<usize> = (0..n).map(|_| 1 + rng.usize(9)).collect();
		plans.push(ReaderKind::Direct(RefillPlan::Cycle(cyc)));
	}
	// (capacity 0 is deliberately NOT a reader kind: std's BufReader::with_capacity(0, _) returns an empty buffer from
	// fill_buf() before the end of the input, which BufRead's contract reserves for end of input, and the property's
	// quantifier ranges over chunk sizes 1..len — DESIGN §13, S15-C11p)
	for cap in 1..=16usize {
		let plan = if cap % 2 == 0 { RefillPlan::Whole } else { RefillPlan::Fixed(3) };
		plans.push(ReaderKind::BufReader { cap, plan });
	}
	plans
}

fn boundaries_of(kind: &ReaderKind, len: usize) -> Vec<usize> {
	// positions at which a refill boundary falls (first few only)
	let plan = match kind {
		ReaderKind::Direct(p) => p,
		ReaderKind::BufReader { cap, plan } => {
			// boundaries of the BufReader's own buffer when the inner plan is coarser
			return match plan {
				RefillPlan::Whole => (1..).map(|i| i * cap).take_while(|&p| p < len).take(6).collect(),
				_ => vec![],
			};
		}
	};
	match plan {
		RefillPlan::Whole => vec![],
		RefillPlan::Fixed(k) => (1..).map(|i| i * k).take_while(|&p| p < len).take(6).collect(),
		RefillPlan::Cycle(v) => {
			let mut out = vec![];
			let mut p = 0;
			let mut i = 0;
			while out.len() < 6 && !v.is_empty() {
				p += v[i % v.len()].max(1);
				i += 1;
				if p >= len {
					break;
				}
				out.push(p);
			}
			out
		}
		RefillPlan::Cuts(c) => c.iter().copied().filter(|&p| p < len).collect(),
	}
}

fn tok_label(k: TokKind) -> &'static str {
	match k {
		TokKind::Bool => "boundary_in_bool",
		TokKind::IntVarint => "boundary_in_int_varint",
		TokKind::LongVarint => "boundary_in_long_varint",
		TokKind::LenPrefix => "boundary_in_len_prefix",
		TokKind::Payload => "boundary_in_payload",
		TokKind::Float => "boundary_in_float",
		TokKind::Double => "boundary_in_double",
		TokKind::Fixed => "boundary_in_fixed",
		TokKind::UnionIndex => "boundary_in_union_index",
		TokKind::EnumIndex => "boundary_in_enum_index",
		TokKind::BlockCount => "boundary_in_block_count",
		TokKind::BlockSize => "boundary_in_block_size",
		TokKind::Duration => "boundary_in_duration",
		TokKind::DecimalInner => "boundary_in_bigdecimal_inner",
	}
}

fn kind_class(k: &ReaderKind) -> u64 {
	match k {
		ReaderKind::Direct(RefillPlan::Whole) => 0,
		ReaderKind::Direct(RefillPlan::Fixed(1)) => 1,
		ReaderKind::Direct(RefillPlan::Fixed(k)) if *k < 16 => 2,
		ReaderKind::Direct(RefillPlan::Fixed(_)) => 3,
		ReaderKind::Direct(_) => 4,
		ReaderKind::BufReader { .. } => 5,
	}
}

fn class(o: &DecOut) -> &'static str {
	match &o.res {
		Ok(_) => "ok",
		Err(_) => "err",
	}
}

pub fn stream_plans(seed: u64) -> Vec<ReaderKind> {
	let mut rng = Rng::from_seed(seed);
	let mut plans = vec![
		ReaderKind::Direct(RefillPlan::Whole),
		ReaderKind::Direct(RefillPlan::Fixed(1)),
		ReaderKind::Direct(RefillPlan::Fixed(2 + rng.usize(6))),
		ReaderKind::Direct(RefillPlan::Fixed(8 + rng.usize(24))),
		ReaderKind::Direct(RefillPlan::Fixed(*rng.pick(&[64usize, 255, 256, 1000, 4096, 8192]))),
		ReaderKind::BufReader { cap: 1 + rng.usize(16), plan: RefillPlan::Whole },
		ReaderKind::BufReader { cap: *rng.pick(&[32usize, 64, 100, 8192]), plan: RefillPlan::Fixed(1 + rng.usize(40)) },
	];
	let n = 2 + rng.usize(4);
	plans.push(ReaderKind::Direct(RefillPlan::Cycle((0..n).map(|_| 1 + rng.usize(20)).collect())));
	plans
}

impl C11 {
	/// LONG streams: many datums through one deserializer state per path. Slice and reader must agree datum by datum.
	fn exec_stream(&self, scn: &Scn, seed: u64, n: u32, pattern: u8, out: &mut Outcome) {
		out.count("long_stream_of_datums", 1);
		let env = Env::build(&scn.schema);
		let schema = match world::parse_schema(&scn.schema) {
			Ok(s) => s,
			Err(e) => {
				out.fail("harness:schema-rejected", e);
				return;
			}
		};
		let vals = val::gen_long_vals(seed, &env, &scn.schema, n, pattern);
		let mut bytes = vec![];
		for v in &vals {
			let (b, _) = ref_datum::encode(&env, &scn.schema, v, Layout::default()).expect("HARNESS: reference encoder rejected a generated value");
			bytes.extend_from_slice(&b);
		}
		bytes.extend_from_slice(&TRAILER);
		// `max_alloc_size == 1` stands for "just what the largest single field needs" (the reader's allocation cap is a
		// per-field limit: it must not tighten as one reader goes from datum to datum)
		let mut limits = scn.limits;
		if limits.max_alloc_size == 1 {
			fn max_field(v: &val::Val) -> usize {
				use val::Val::*;
				match v {
					Bytes(b) | Fixed(b) => b.len(),
					Str(s) => s.len(),
					Array(items) | Record(items) => items.iter().map(max_field).max().unwrap_or(0),
					Map(e) => e.iter().map(|(k, v)| k.len().max(max_field(v))).max().unwrap_or(0),
					Union(_, inner) => max_field(inner),
					_ => 0,
				}
			}
			limits.max_alloc_size = vals.iter().map(max_field).max().unwrap_or(0).max(32);
			out.count("long_stream_with_cap_at_the_largest_field", 1);
		}
		let scn = &Scn { limits, ..scn.clone() };
		let slice_out = world::decode_stream_slice(&schema, &env, &scn.schema, &bytes, n as usize, scn.target, scn.limits);
		out.evals += 1;
		let mut digest = Fnv::new();
		digest.u64(slice_out.items.len() as u64).u64(slice_out.consumed as u64);
		if let Some(p) = &slice_out.panicked {
			out.fail(format!("C11:stream:slice-panic:{}", crate::runner::panic_site(p)), format!("after {} datums: {p}", slice_out.items.len()));
			return;
		}
		// the slice path on reference encodings of valid values: every datum decodes, to the value written (capturing targets)
		// (other targets may legitimately refuse a value: a str asked of bytes that are not UTF-8 ...; for them only the
		// slice / reader comparison below applies)
		if scn.target == Target::capture() {
			if let Some((i, Err(e))) = slice_out.items.iter().enumerate().find(|(_, r)| r.is_err()) {
				out.fail("C11:stream:slice-rejects-valid-datum", format!("datum #{i} of {n}: {e}"));
				return;
			}
			if let Some(i) = slice_out.items.iter().zip(&vals).position(|(a, b)| a.as_ref().ok() != Some(b)) {
				out.fail("C11:stream:slice-value-differs", format!("datum #{i} of {n}: got {:?}, written {:?}", slice_out.items[i], vals[i]));
				return;
			}
		}
		let plans = match &scn.plans {
			Plans::Enumerate { seed } => stream_plans(*seed),
			Plans::Only(p) => p.clone(),
		};
		for kind in &plans {
			let (r, stats) = world::decode_stream_reader(&schema, &env, &scn.schema, &bytes, n as usize, scn.target, scn.limits, kind);
			out.evals += 1;
			out.steps += stats.calls;
			digest.u64(stats.digest).u64(r.items.len() as u64).u64(r.consumed as u64);
			let mut sig = Fnv::new();
			sig.str("c11-stream").str(scn.target.label()).u64(pattern as u64).u64(kind_class(kind)).u64((n / 256) as u64).u64((stats.read_calls > 0) as u64);
			out.sig(sig);
			if stats.read_calls > 0 {
				out.count("reader_bytewise_or_scratch_path", 1);
			}
			if let Some(p) = &r.panicked {
				out.fail(format!("C11:stream:reader-panic:{}", crate::runner::panic_site(p)), format!("plan {}: after {} datums: {p}", kind.label(), r.items.len()));
				break;
			}
			if !stats.contract_violations.is_empty() {
				out.fail("C11:stream:bufread-contract", format!("{} with {}", stats.contract_violations[0], kind.label()));
				break;
			}
			if stats.budget_exhausted {
				out.fail("C11:stream:livelock", format!("source step budget exhausted with {}", kind.label()));
				break;
			}
			if let Some(i) = (0..slice_out.items.len().max(r.items.len())).find(|&i| slice_out.items.get(i) .map(|x| x.as_ref().ok()) != r.items.get(i).map(|x| x.as_ref().ok())) {
				out.fail(
					if r.items.get(i).map_or(false, |x| x.is_err()) { "C11:stream:slice-ok-reader-err" } else { "C11:stream:value-differs" },
					format!("plan {}: datum #{i} of {n}: slice gave {:?}, reader gave {:?}", kind.label(), slice_out.items.get(i), r.items.get(i)),
				);
				break;
			}
			// (on an error consumption is not compared: the property speaks of success)
			if slice_out.items.iter().all(|x| x.is_ok()) && slice_out.consumed != r.consumed {
				out.fail("C11:stream:consumed-differs", format!("plan {}: slice consumed {}, reader consumed {}", kind.label(), slice_out.consumed, r.consumed));
				break;
			}
		}
		// ---- going on after an error. The property compares one deserialization of one byte string; on ONE state, the
		// next deserialization is that of the bytes that follow, so it is comparable exactly when both paths stand at the
		// same position — which is the case after an error raised by the CALLER's type on a leaf that both paths had
		// read completely (a refused string, an alternative hint that does not fit). Whatever a failed read leaves
		// behind in the reader's state must not leak into the next VALUE (whether a state that has reported an error goes on
		// at all is its own business: outcome classes are not compared after an error).
		if !out.failed() && slice_out.items.iter().any(|x| x.is_err()) {
			out.count("long_stream_continued_after_errors", 1);
			let attempts = 2 * n as usize + 8;
			let s = world::decode_stream_slice_stepwise(&schema, &env, &scn.schema, &bytes, attempts, scn.target, scn.limits);
			out.evals += 1;
			if let Some(p) = &s.panicked {
				out.fail(format!("C11:stream:slice-panic:{}", crate::runner::panic_site(p)), format!("going on after errors, after {} attempts: {p}", s.items.len()));
				return;
			}
			for kind in plans.iter().filter(|k| matches!(k, ReaderKind::Direct(_))) {
				let (r, stats) = world::decode_stream_reader_ext(&schema, &env, &scn.schema, &bytes, attempts, scn.target, scn.limits, kind, false);
				out.evals += 1;
				out.steps += stats.calls;
				digest.u64(stats.digest).u64(r.items.len() as u64);
				if let Some(p) = &r.panicked {
					out.fail(format!("C11:stream:reader-panic:{}", crate::runner::panic_site(p)), format!("plan {}: going on after errors, after {} attempts: {p}", kind.label(), r.items.len()));
					return;
				}
				if stats.budget_exhausted {
					out.fail("C11:stream:livelock", format!("source step budget exhausted with {} (going on after errors)", kind.label()));
					return;
				}
				let mut compared = 0;
				for i in 0..s.items.len().min(r.items.len()) {
					if i > 0 && s.positions[i - 1] != r.positions[i - 1] {
						// the two paths stand at different positions after an error: nothing is promised from here on
						break;
					}
					compared += 1;
					match (&s.items[i], &r.items[i]) {
						(Ok(a), Ok(b)) if a != b => {
							out.fail("C11:stream:value-differs:after-an-error", format!("plan {}: attempt #{i} (both paths at byte {}): slice gave {a:?}, reader gave {b:?}", kind.label(), if i > 0 { s.positions[i - 1] } else { 0 }));
							return;
						}
						(Ok(_), Ok(_)) => {
							if s.positions[i] != r.positions[i] {
								out.fail("C11:stream:consumed-differs:after-an-error", format!("plan {}: attempt #{i}: slice now at {}, reader at {}", kind.label(), s.positions[i], r.positions[i]));
								return;
							}
						}
						// (a state that has reported an error may legitimately refuse to go on, or go on differently: the
						// property speaks of one deserialization of one byte string. Only VALUES are held to it here: what
						// both paths decode from the same position must be the same value.)
						(Ok(_), Err(_)) | (Err(_), Ok(_)) => {
							out.count("long_stream_outcome_class_differs_after_an_error", 1);
							break;
						}
						(Err(_), Err(_)) => {}
					}
				}
				if compared > 1 {
					out.count("long_stream_attempts_compared_after_an_error", compared as u64 - 1);
				}
			}
		}
		out.digest = digest.get();
	}

	fn exec_datum(&self, scn: &Scn, out: &mut Outcome) {
		if scn.bytes.len() >= 8192 {
			out.count("scale_input_of_8_kib_or_more", 1);
		}
		if scn.bytes.len() > 65536 {
			out.count("scale_input_above_64_kib", 1);
		}
		if scn.tokens.iter().any(|t| matches!(t.kind, crate::ref_datum::TokKind::BlockCount | crate::ref_datum::TokKind::UnionIndex | crate::ref_datum::TokKind::EnumIndex) && t.len >= 2) {
			out.count("scale_count_or_index_of_two_bytes_or_more", 1);
		}
		let env = Env::build(&scn.schema);
		let schema = match world::parse_schema(&scn.schema) {
			Ok(s) => s,
			Err(e) => {
				out.fail("harness:schema-rejected", e);
				return;
			}
		};
		let single = scn.mode == Mode::SingleObject;
		let datum_off = if single { 10 } else { 0 };
		// the slice run
		let slice_out = if single {
			crate::tls::decode_single_object_slice(&schema, &env, &scn.schema, &scn.bytes, scn.target, scn.limits)
		} else {
			world::decode_slice(&schema, &env, &scn.schema, &scn.bytes, scn.target, scn.limits)
		};
		out.evals += 1;
		let plans = match &scn.plans {
			Plans::Enumerate { seed } => enumerate_plans(scn.bytes.len(), &scn.tokens, *seed, 64),
			Plans::Only(p) => p.clone(),
		};
		let mut digest = Fnv::new();
		digest.str(class(&slice_out)).u64(slice_out.consumed as u64);
		for kind in &plans {
			let (r, stats) = if single {
				crate::tls::decode_single_object_reader(&schema, &env, &scn.schema, &scn.bytes, scn.target, scn.limits, kind)
			} else {
				world::decode_reader(&schema, &env, &scn.schema, &scn.bytes, scn.target, scn.limits, kind, &[])
			};
			out.evals += 1;
			out.steps += stats.calls;
			digest.u64(stats.digest).str(class(&r)).u64(r.consumed as u64);
			// reach probes + signature
			let bounds = boundaries_of(kind, scn.bytes.len());
			let mut first_tok: Option<(TokKind, usize)> = None;
			for b in &bounds {
				if let Some(t) = scn
					.tokens
					.iter()
					// (the inner length / scale of a big-decimal are one-byte varints: a boundary right before or after counts)
					.find(|t| (*b > t.off + datum_off && *b < t.off + datum_off + t.len) || (t.kind == TokKind::DecimalInner && (*b == t.off + datum_off || *b == t.off + datum_off + t.len)))
				{
					out.count(tok_label(t.kind), 1);
					if first_tok.is_none() {
						first_tok = Some((t.kind, b - t.off - datum_off));
					}
				}
				if single && *b < 10 {
					out.count("boundary_in_single_object_header", 1);
				}
			}
			if stats.read_calls > 0 {
				out.count("reader_bytewise_or_scratch_path", 1);
			}
			if !bounds.is_empty() {
				let mut sig = Fnv::new();
				sig.str("c11").str(scn.target.label()).str(class(&r));
				match first_tok {
					Some((k, o)) => {
						sig.u64(k as u64).u64(o.min(12) as u64);
					}
					None => {
						sig.u64(999);
					}
				}
				sig.u64((stats.read_calls > 0) as u64).u64(single as u64);
				sig.str(&scn.gen_kind);
				out.sig(sig);
			}
			let mode = if single { "single" } else { "datum" };
			if !stats.contract_violations.is_empty() {
				out.fail(format!("C11:{mode}:bufread-contract"), format!("{} with {}", stats.contract_violations[0], kind.label()));
				break;
			}
			if stats.budget_exhausted {
				out.fail(format!("C11:{mode}:livelock"), format!("source step budget exhausted with {}", kind.label()));
				break;
			}
			match (&slice_out.res, &r.res) {
				(Ok(a), Ok(b)) => {
					if a != b {
						out.fail(
							format!("C11:{mode}:value-differs"),
							format!("plan {}: slice gave {a:?}, reader gave {b:?}", kind.label()),
						);
						break;
					}
					if slice_out.consumed != r.consumed {
						out.fail(
							format!("C11:{mode}:consumed-differs"),
							format!("plan {}: slice consumed {}, reader consumed {}", kind.label(), slice_out.consumed, r.consumed),
						);
						break;
					}
				}
				(Ok(_), Err(e)) => {
					out.fail(
						format!("C11:{mode}:slice-ok-reader-err"),
						format!("plan {}: slice decoded, reader failed with: {e}", kind.label()),
					);
					break;
				}
				(Err(e), Ok(v)) => {
					out.fail(
						format!("C11:{mode}:slice-err-reader-ok"),
						format!("plan {}: slice failed with {e}, reader decoded {v:?}", kind.label()),
					);
					break;
				}
				(Err(_), Err(_)) => {}
			}
		}
		// the top-level entry points (no limits can be set on them, so only on reference encodings)
		if !out.failed() && !single && matches!(scn.gen_kind.as_str(), "ref" | "ref-blocks") && scn.bytes.len() <= 4096 {
			let top_slice = crate::tls::with_ctx_pub(&env, &scn.schema, scn.target, || serde_avro_fast::from_datum_slice::<crate::tls::ViaTls>(&scn.bytes, &schema)).map(|v| v.0).map_err(|e| e.to_string());
			let mut src = crate::simio::SimSource::new(&scn.bytes, RefillPlan::Fixed(1 + (scn.bytes.len() % 7)));
			let top_reader = crate::tls::with_ctx_pub(&env, &scn.schema, scn.target, || serde_avro_fast::from_datum_reader::<_, crate::tls::ViaTls>(&mut src, &schema)).map(|v| v.0).map_err(|e| e.to_string());
			out.evals += 2;
			out.count("top_level_from_datum_entry_points", 1);
			if top_slice.is_ok() != slice_out.res.is_ok() || top_reader.is_ok() != slice_out.res.is_ok() || (slice_out.res.is_ok() && (top_slice.as_ref().ok() != slice_out.res.as_ref().ok() || top_reader.as_ref().ok() != slice_out.res.as_ref().ok())) {
				out.fail("C11:datum:top-level-entry-points-disagree", format!("from_datum_slice: {top_slice:?}; from_datum_reader: {top_reader:?}; DeserializerState over the slice: {:?}", slice_out.res));
			} else if top_reader.is_ok() && src.position() != slice_out.consumed {
				out.fail("C11:datum:consumed-differs", format!("from_datum_reader consumed {}, the slice path {}", src.position(), slice_out.consumed));
			}
		}
		out.count(if slice_out.res.is_ok() { "inputs_decoding_ok" } else { "inputs_decoding_err" }, 1);
		out.digest = digest.get();
	}
}

fn damage(rng: &mut Rng, bytes: &mut Vec<u8>) -> &'static str {
	if bytes.is_empty() {
		bytes.push(rng.next_u64() as u8);
		return "damaged:insert";
	}
	match rng.below(5) {
		0 => {
			let n = rng.usize(bytes.len());
			bytes.truncate(n);
			"damaged:truncate"
		}
		1 => {
			let i = rng.usize(bytes.len());
			bytes[i] ^= 1 << rng.below(8);
			"damaged:bitflip"
		}
		2 => {
			let i = rng.usize(bytes.len());
			bytes[i] = *rng.pick(&[0x00u8, 0x01, 0x02, 0x7f, 0x80, 0xff, 0xfe, 0x81]);
			"damaged:replace"
		}
		3 => {
			for _ in 0..1 + rng.below(3) {
				let i = rng.usize(bytes.len());
				bytes[i] = rng.next_u64() as u8;
			}
			"damaged:multi"
		}
		_ => {
			let i = rng.usize(bytes.len() + 1);
			bytes.insert(i, *rng.pick(&[0x80u8, 0xff, 0x00, 0x01]));
			"damaged:insert"
		}
	}
}

pub fn gen_target(rng: &mut Rng) -> Target {
	if rng.chance(1, 5) {
		return Target::AltHints(rng.next_u64());
	}
	match rng.below(11) {
		10 => Target::Reject,
		0..=3 => Target::capture(),
		4 => Target::Capture {
			enum_as_u64: true,
			duration_as_bytes: true,
		},
		5 | 6 => Target::Masked(rng.next_u64()),
		7 => Target::Ignored,
		8 => Target::Blind,
		_ => Target::Hash,
	}
}

impl Prop for C11 {
	type Scn = Scn;
	fn id(&self) -> &'static str {
		"C11"
	}
	fn level(&self) -> &'static str {
		"fault_enumeration"
	}
	fn rule(&self) -> &'static str {
		"A scenario is (mode, schema, byte string, target); byte strings come from the reference encoder (any block layout), \
		 legal-but-unusual spellings (padded varints, negative-count blocks), fault-derived damage (bit flips, replacements, truncation, insertions) and random bytes; \
		 container scenarios are whole files (valid, truncated or damaged) of every codec. For each scenario the slice path runs once and the reader path runs under every refill plan: \
		 every Fixed(k) for k=1..len (len<=64; sampled above), one cut after every byte inside every multi-byte token, random cyclic plans, BufReader capacities 1..16. \
		 An evaluation is one decode. A case is non-trivial when a refill boundary exists; distinct = distinct (target, outcome class, token kind straddling the first boundary, offset inside it, byte-wise/scratch path used, generator kind, mode). One scenario in 300 is a LONG stream: 250-1200 datums (size patterns as in C05) encoded one after the other and decoded through ONE DeserializerState per path (slice, and eight reader plans): the two paths must agree datum by datum and, when all decode, on the bytes consumed. When such a stream holds datums that the caller's type refuses (the refusing target, an alternative hint that does not fit), decoding GOES ON after the error on the same state, and whenever both paths stand at the same byte position and both decode the next datum, the two VALUES (and the bytes consumed) must agree. Targets: capture, alternative hints (eight per node kind: char, newtype struct, option, unit struct, enum, other integer / float widths, identifier, any ...), masked (some fields ignored), ignored, blind, hash. One datum scenario in forty is deliberately large-scale (fields around 8 KiB and 64 KiB and above, two- and three-byte counts and indices, deep lists)."
	}
	fn assumptions(&self) -> Vec<String> {
		vec![
			"max_alloc_size=1MiB and max_seq_size=100000 on both paths (they only bound the cost of hostile inputs; inputs here are < 100 KiB)".into(),
			"error text is not compared; on Err consumption is not compared".into(),
			"for damaged container files only the whole-stream outcome class and prefix relation are compared (DESIGN §7.1)".into(),
			"the token map used to aim refill boundaries comes from the reference encoder".into(),
		]
	}
	fn expected_probes(&self) -> Vec<&'static str> {
		vec!["long_stream_of_datums", "boundary_in_int_varint", "boundary_in_long_varint", "boundary_in_len_prefix", "boundary_in_payload", "boundary_in_float", "boundary_in_double", "boundary_in_fixed", "boundary_in_union_index", "boundary_in_enum_index", "boundary_in_block_count", "boundary_in_block_size", "boundary_in_duration", "boundary_in_bigdecimal_inner", "boundary_in_single_object_header", "reader_bytewise_or_scratch_path", "container_reads", "container_damaged_reads", "top_level_from_datum_entry_points"]
	}
	fn budget(&self, tier: Tier) -> (u64, u64) {
		match tier {
			Tier::Quick => (400_000, 90),
			Tier::Thorough => (6_000_000, 1200),
		}
	}

	fn gen(&self, rng: &mut Rng, _tier: Tier, run: u64) -> Scn {
		// one in eight scenarios is a container file
		if run % 8 == 7 {
			return container::gen_c11_container(rng);
		}
		if rng.chance(1, 300) {
			// a LONG stream of datums through one deserializer state
			let schema = match rng.below(10) {
				0 => Ty::String,
				1 => Ty::Bytes,
				2 => Ty::Record { name: 0, fields: vec![(0, Ty::Int), (1, Ty::String)] },
				3 => Ty::Union(vec![Ty::Null, Ty::String]),
				4 => Ty::Array(Box::new(Ty::String)),
				5 => Ty::Long,
				6 => Ty::Map(Box::new(Ty::Bytes)),
				7 => Ty::Record { name: 0, fields: vec![(0, Ty::Bytes), (1, Ty::Double), (2, Ty::String)] },
				_ => {
					let cfg = GenCfg::default_swarm(rng);
					ast::gen_schema(rng, cfg)
				}
			};
			let n = match rng.below(3) {
				0 => 250 + rng.below(20) as u32,
				1 => 257 + rng.below(300) as u32,
				_ => 500 + rng.below(700) as u32,
			};
			let pattern = rng.below(7) as u8;
			let target = match rng.below(6) {
				0..=2 => Target::capture(),
				3 => Target::Reject,
				_ => gen_target(rng),
			};
			return Scn {
				mode: Mode::Stream { seed: rng.next_u64(), n: if pattern == 2 || pattern == 3 || pattern == 6 { n.min(700) } else { n }, pattern },
				schema,
				bytes: vec![],
				gen_kind: "long-stream".into(),
				tokens: vec![],
				target,
				plans: Plans::Enumerate { seed: rng.next_u64() },
				limits: if rng.bool() { Limits::sim_default() } else { Limits { max_alloc_size: 1, ..Limits::sim_default() } },
			};
		}
		let corner = ast::corner_schemas();
		let mut scale = None;
		let schema = if rng.chance(1, 40) {
			// deliberately large-scale (multi-byte counts / indices, values around 8 KiB and 64 KiB, deep nesting)
			let cheap = rng.chance(2, 3);
			let (ty, sc) = ast::gen_scale_schema(rng, cheap);
			scale = Some(sc);
			ty
		} else if rng.chance(1, 10) {
			rng.pick(&corner).clone()
		} else {
			let cfg = GenCfg::default_swarm(rng);
			ast::gen_schema(rng, cfg)
		};
		let env = Env::build(&schema);
		let vcfg = ValCfg {
			max_len: 1 + rng.usize(6),
			max_depth: 4,
			budget: 8 + rng.below(40) as i32,
			// one scenario in forty carries strings / bytes around the 8 KiB BufReader capacity or above
			str_boost: if rng.chance(1, 40) { *rng.pick(&[300usize, 9000, 17000, 40000]) } else { 0 }, scale: None }.with_scale(scale);
		let v = val::gen_val(rng, &env, &schema, &vcfg);
		let gk = rng.below(12);
		let layout = match gk {
			0..=2 => Layout::default(),
			3 | 4 => Layout {
				seed: rng.next_u64(),
				split_blocks: true,
				negative_counts: rng.bool(),
				pad_varints: 0,
			},
			5 | 6 => Layout {
				seed: rng.next_u64(),
				split_blocks: rng.bool(),
				negative_counts: rng.bool(),
				pad_varints: *rng.pick(&[2u8, 5, 9, 10]),
			},
			10 => Layout {
				seed: rng.next_u64(),
				split_blocks: rng.bool(),
				negative_counts: true,
				pad_varints: 0,
			},
			_ => Layout {
				seed: rng.next_u64(),
				split_blocks: rng.bool(),
				negative_counts: rng.bool(),
				pad_varints: 0,
			},
		};
		let (mut bytes, mut tokens) = ref_datum::encode(&env, &schema, &v, layout).expect("HARNESS: reference encoder rejected a generated value");
		let mut gen_kind: String = match gk {
			0..=2 => "ref".into(),
			3 | 4 => "ref-blocks".into(),
			5 | 6 => "unusual".into(),
			_ => "ref-blocks".into(),
		};
		let mut trailer = true;
		if gk >= 7 && gk <= 8 {
			let k = damage(rng, &mut bytes);
			gen_kind = k.into();
			if k == "damaged:truncate" {
				trailer = false;
			}
			if k == "damaged:truncate" || k == "damaged:insert" {
				tokens.clear();
			}
		} else if gk == 10 {
			// a size-prefixed block whose declared byte size is off by one (what a skipping reader trusts)
			let sizes: Vec<Token> = tokens.iter().copied().filter(|t| t.kind == TokKind::BlockSize).collect();
			if let Some(t) = sizes.last().copied() {
				let orig = ref_datum::Decoder::new(&env, &bytes[t.off..]).long().unwrap_or(0);
				let new = if rng.bool() { orig + 1 } else { (orig - 1).max(0) };
				bytes.splice(t.off..t.off + t.len, ref_datum::encode_long(new));
				tokens.clear();
				gen_kind = "block-size-off-by-one".into();
				trailer = rng.bool();
			}
		} else if gk == 11 {
			// the last one to three bytes are missing
			let cut = 1 + rng.usize(3);
			let n = bytes.len().saturating_sub(cut);
			bytes.truncate(n);
			tokens.retain(|t| t.off + t.len <= n);
			gen_kind = "damaged:truncate-tail".into();
			trailer = false;
		} else if gk == 9 {
			let n = rng.usize(49);
			bytes = rng.bytes(n);
			tokens.clear();
			gen_kind = "random".into();
			trailer = rng.bool();
		}
		if trailer {
			bytes.extend_from_slice(&TRAILER);
		}
		// the single-object entry points cannot be given limits (max_seq_size stays at 10^9), so hostile
		// counts are left to datum mode: single-object mode uses reference encodings only
		let mode = if rng.chance(1, 6) && gk <= 6 { Mode::SingleObject } else { Mode::Datum };
		let _ = &mut trailer;
		if mode == Mode::SingleObject {
			// header: marker + fingerprint computed by the crate (the header's correctness is C18's business);
			// occasionally damaged so that the error path is compared too
			let mut hdr = vec![0xC3, 0x01];
			match world::parse_schema(&schema) {
				Ok(s) => hdr.extend_from_slice(s.rabin_fingerprint()),
				Err(_) => hdr.extend_from_slice(&[0; 8]),
			}
			if rng.chance(1, 8) {
				let i = rng.usize(10);
				hdr[i] ^= 0x10;
				gen_kind.push_str("+bad-header");
			}
			hdr.extend_from_slice(&bytes);
			bytes = hdr;
			if rng.chance(1, 10) {
				let n = rng.usize(12.min(bytes.len() + 1));
				bytes.truncate(n);
				tokens.clear();
				gen_kind.push_str("+short");
			}
		}
		let target = if gk == 10 && rng.chance(3, 4) {
			if rng.bool() {
				Target::Ignored
			} else {
				Target::Masked(rng.next_u64())
			}
		} else {
			gen_target(rng)
		};
		// The allocation cap exists on the reader path only. On valid encodings it is sometimes set just above the
		// largest single token, so that nothing legitimate hits it and any use of it for something that is not a field
		// (a whole skipped block, a run of fields) shows as a slice / reader disagreement.
		let mut limits = Limits::sim_default();
		if mode == Mode::Datum && (gen_kind == "ref" || gen_kind.starts_with("unusual")) && rng.chance(1, 3) {
			let largest = tokens.iter().map(|t| t.len).max().unwrap_or(0);
			limits.max_alloc_size = (4 * largest).max(64);
		}
		Scn {
			mode,
			schema,
			bytes,
			gen_kind,
			tokens,
			target,
			plans: Plans::Enumerate { seed: rng.next_u64() },
			limits,
		}
	}

	fn exec(&self, scn: &Scn) -> Outcome {
		let mut out = Outcome::default();
		match scn.mode {
			Mode::Datum | Mode::SingleObject => self.exec_datum(scn, &mut out),
			Mode::Container { valid } => container::exec_c11_container(scn, valid, &mut out),
			Mode::Stream { seed, n, pattern } => self.exec_stream(scn, seed, n, pattern, &mut out),
		}
		out
	}

	fn shrink(&self, scn: &Scn) -> Vec<Scn> {
		let mut c = vec![];
		if let Mode::Stream { seed, n, pattern } = scn.mode {
			match &scn.plans {
				Plans::Enumerate { seed } => {
					for p in stream_plans(*seed) {
						let mut s = scn.clone();
						s.plans = Plans::Only(vec![p]);
						c.push(s);
					}
				}
				Plans::Only(_) => {
					for nn in [n / 2, n - n / 8 - 1, n - 1] {
						if nn > 0 && nn < n {
							let mut s = scn.clone();
							s.mode = Mode::Stream { seed, n: nn, pattern };
							c.push(s);
						}
					}
					if scn.target != Target::capture() {
						let mut s = scn.clone();
						s.target = Target::capture();
						c.push(s);
					}
				}
			}
			return c;
		}
		// 1. a single plan instead of the enumeration
		if let Plans::Enumerate { seed } = &scn.plans {
			let all = match scn.mode {
				Mode::Container { .. } => container::c11_container_plans(scn.bytes.len(), *seed),
				_ => enumerate_plans(scn.bytes.len(), &scn.tokens, *seed, 64),
			};
			for p in all {
				let mut s = scn.clone();
				s.plans = Plans::Only(vec![p]);
				c.push(s);
			}
			return c;
		}
		if let Plans::Only(v) = &scn.plans {
			if v.len() > 1 {
				for p in v {
					let mut s = scn.clone();
					s.plans = Plans::Only(vec![p.clone()]);
					c.push(s);
				}
			}
		}
		if matches!(scn.mode, Mode::Container { .. }) {
			return c;
		}
		// 2. simpler target
		if scn.target != Target::capture() {
			let mut s = scn.clone();
			s.target = Target::capture();
			c.push(s);
		}
		// 3. drop trailing bytes
		if scn.bytes.len() > 1 {
			for cut in [scn.bytes.len() / 2, scn.bytes.len() - 1] {
				let mut s = scn.clone();
				s.bytes.truncate(cut);
				s.tokens.retain(|t| t.off + t.len <= cut);
				c.push(s);
			}
		}
		// 4. simpler schema: replace the schema by one of its sub-schemas when the bytes still make sense
		for sub in sub_schemas(&scn.schema) {
			if ast::well_formed(&sub) {
				let mut s = scn.clone();
				s.schema = sub;
				s.tokens.clear();
				c.push(s);
			}
		}
		c
	}
}

pub fn sub_schemas(ty: &Ty) -> Vec<Ty> {
	let mut out = vec![];
	match ty {
		Ty::Array(t) | Ty::Map(t) => out.push((**t).clone()),
		Ty::Union(ts) => out.extend(ts.iter().cloned()),
		Ty::Record { name, fields } => {
			for (_, t) in fields {
				out.push(t.clone());
			}
			for i in 0..fields.len() {
				let mut f = fields.clone();
				f.remove(i);
				out.push(Ty::Record { name: *name, fields: f });
			}
		}
		_ => {}
	}
	out
}
