//! C04 — decoding untrusted bytes is total and resource-bounded under configured limits.
//! Runs in child worker processes: stack overflow, abort, allocation-cap and hang are observed by
//! the parent and attributed to the in-flight scenario.

use crate::ast::{self, Env, GenCfg, Ty};
use crate::prng::{Fnv, Rng};
use crate::ref_datum::{self, encode_long, Layout, TokKind};
use crate::runner::{Outcome, Prop, Tier};
use crate::simalloc;
use crate::simio::RefillPlan;
use crate::val::{self, Val, ValCfg};
use crate::world::{self, Limits, ReaderKind, Target};
use serde_derive::{Deserialize, Serialize};

#[derive(Clone, Copy, Debug, Serialize, Deserialize, PartialEq)]
pub enum DeepKind {
	/// record { f0: int, f1: union[null, self] }
	RecordUnion,
	/// record { f0: array<self> }
	RecordArray,
	/// record { f0: map<self> }
	RecordMap,
}

#[derive(Clone, Debug, Serialize, Deserialize)]
pub enum Input {
	Bytes(Vec<u8>),
	/// `depth` nested levels of a recursive schema, generated at execution time (compact)
	Deep { kind: DeepKind, depth: u32, terminated: bool },
	/// a LONG stream of `n` valid datums (`val::gen_long_vals`) decoded one after the other through ONE deserializer
	/// state, under limits that every single datum just fits (generated at execution time)
	Stream { seed: u64, n: u32, pattern: u8 },
	/// a nesting stream much deeper than the limit, decoded AGAIN AND AGAIN on the same deserializer state after every
	/// refusal (up to `attempts` times; the bytes are all alike, so every position is a level boundary): no attempt
	/// may ever return a value nested deeper than the limit allows — a limit is a limit also after it has been hit
	DeepRetry { kind: DeepKind, depth: u32, attempts: u32 },
}

#[derive(Clone, Debug, Serialize, Deserialize, PartialEq)]
pub enum Path {
	Slice,
	Reader(ReaderKind),
}

#[derive(Clone, Debug, Serialize, Deserialize)]
pub struct Scn {
	pub schema: Ty,
	pub input: Input,
	pub gen_kind: String,
	/// the value the bytes are a valid encoding of, if they are
	pub valid_of: Option<Val>,
	/// the valid encoding uses positive block counts only (no size-prefixed blocks an ignoring reader may skip unseen)
	#[serde(default)]
	pub positive_counts_only: bool,
	pub limits: Limits,
	pub target: Target,
	pub path: Path,
	/// (reader path, plain sources) go through the public `Take` trait: `ReaderRead { cap }.take(len)`, then the state
	#[serde(default)]
	pub via_take: bool,
}

pub struct C04;

pub fn deep_schema(kind: DeepKind) -> Ty {
	match kind {
		DeepKind::RecordUnion => Ty::Record { name: 0, fields: vec![(0, Ty::Int), (1, Ty::Union(vec![Ty::Null, Ty::Ref(0)]))] },
		DeepKind::RecordArray => Ty::Record { name: 0, fields: vec![(0, Ty::Array(Box::new(Ty::Ref(0))))] },
		DeepKind::RecordMap => Ty::Record { name: 0, fields: vec![(0, Ty::Map(Box::new(Ty::Ref(0))))] },
	}
}

pub fn deep_bytes(kind: DeepKind, depth: u32, terminated: bool) -> Vec<u8> {
	let d = depth as usize;
	let mut out = vec![];
	match kind {
		DeepKind::RecordUnion => {
			for _ in 0..d {
				out.extend_from_slice(&[0x02, 0x02]);
			}
			if terminated {
				out.extend_from_slice(&[0x02, 0x00]);
			}
		}
		DeepKind::RecordArray => {
			out.resize(d, 0x02);
			if terminated {
				out.resize(2 * d + 1, 0x00);
			}
		}
		DeepKind::RecordMap => {
			for _ in 0..d {
				out.extend_from_slice(&[0x02, 0x02, b'k']);
			}
			if terminated {
				out.resize(3 * d + d + 1, 0x00);
			}
		}
	}
	out
}

/// crate-independent nesting measure: array / map / record / union nodes on the deepest path
fn val_depth(v: &Val) -> usize {
	match v {
		Val::Array(items) => 1 + items.iter().map(val_depth).max().unwrap_or(0),
		Val::Map(e) => 1 + e.iter().map(|(_, v)| val_depth(v)).max().unwrap_or(0),
		Val::Record(f) => 1 + f.iter().map(val_depth).max().unwrap_or(0),
		Val::Union(_, inner) => 1 + val_depth(inner),
		_ => 0,
	}
}
/// nesting in the everyday sense: records, arrays and maps inside one another (a union is a choice, not a level)
fn val_nesting(v: &Val) -> usize {
	match v {
		Val::Array(items) => 1 + items.iter().map(val_nesting).max().unwrap_or(0),
		Val::Map(e) => 1 + e.iter().map(|(_, v)| val_nesting(v)).max().unwrap_or(0),
		Val::Record(f) => 1 + f.iter().map(val_nesting).max().unwrap_or(0),
		Val::Union(_, inner) => val_nesting(inner),
		_ => 0,
	}
}
fn max_seq(v: &Val) -> usize {
	match v {
		Val::Array(items) => items.len().max(items.iter().map(max_seq).max().unwrap_or(0)),
		Val::Map(e) => e.len().max(e.iter().map(|(_, v)| max_seq(v)).max().unwrap_or(0)),
		Val::Record(f) => f.iter().map(max_seq).max().unwrap_or(0),
		Val::Union(_, inner) => max_seq(inner),
		_ => 0,
	}
}
fn max_field_len(v: &Val) -> usize {
	match v {
		Val::Bytes(b) => b.len(),
		Val::Str(s) => s.len(),
		Val::Array(items) => items.iter().map(max_field_len).max().unwrap_or(0),
		Val::Map(e) => e.iter().map(|(k, v)| k.len().max(max_field_len(v))).max().unwrap_or(0),
		Val::Record(f) => f.iter().map(max_field_len).max().unwrap_or(0),
		Val::Union(_, inner) => max_field_len(inner),
		Val::Fixed(b) => b.len(),
		_ => 0,
	}
}
fn max_chunk(path: &Path, len: usize) -> usize {
	match path {
		Path::Slice => len,
		Path::Reader(ReaderKind::Direct(RefillPlan::Fixed(k))) => *k,
		Path::Reader(ReaderKind::Direct(RefillPlan::Cycle(v))) => v.iter().copied().max().unwrap_or(len),
		Path::Reader(ReaderKind::BufReader { cap, .. }) => *cap,
		Path::Reader(_) => len,
	}
}

const HOSTILE: [i64; 12] = [-1, i64::MIN, i64::MAX, 1 << 62, 1 << 31, (1 << 31) - 1, -(1 << 31), 1 << 20, 1 << 40, -2, 0x7fff_ffff_ffff, -(1 << 62)];

/// On the reader path `Ok` is demanded of a valid input only when the allocation cap also covers the largest scalar
/// field (a 10-byte varint, a 12-byte duration, a 16-byte decimal ...): whether a cap of 0 or 1 byte lets a one-byte
/// boolean through is the implementation's business, the property only says what must be REFUSED.
const SCALAR_FIELD_MAX: usize = 32;

impl C04 {
	/// Many valid datums through ONE deserializer state. The limits are set to what the most demanding single datum
	/// needs (the property's limits are per datum: nesting, sequence length, field size), so budgets or totals that are
	/// carried from one datum to the next instead of starting afresh show as a refusal or a panic.
	fn exec_stream(&self, scn: &Scn, env: &Env, schema: &serde_avro_fast::Schema, seed: u64, n: u32, pattern: u8, out: &mut Outcome) {
		out.count("long_stream_of_datums", 1);
		let vals = val::gen_long_vals(seed, env, &scn.schema, n, pattern);
		let mut bytes = vec![];
		let mut largest_datum = 0;
		for v in &vals {
			let (b, _) = ref_datum::encode(env, &scn.schema, v, Layout::default()).expect("HARNESS: reference encoder rejected a generated value");
			largest_datum = largest_datum.max(b.len());
			bytes.extend_from_slice(&b);
		}
		let d = vals.iter().map(val_depth).max().unwrap_or(0);
		let s = vals.iter().map(max_seq).max().unwrap_or(0);
		let f = vals.iter().map(max_field_len).max().unwrap_or(0);
		// tight, but inside the region where the oracle of the single-datum scenarios demands Ok
		let limits = Limits { allowed_depth: 2 * d + 2, max_seq_size: s, max_alloc_size: f.max(SCALAR_FIELD_MAX) };
		let guard = simalloc::MeasureGuard::start();
		let (r, stats) = match &scn.path {
			Path::Slice => (world::decode_stream_slice(schema, env, &scn.schema, &bytes, n as usize, scn.target, limits), None),
			Path::Reader(kind) => {
				let (r, st) = world::decode_stream_reader(schema, env, &scn.schema, &bytes, n as usize, scn.target, limits, kind);
				(r, Some(st))
			}
		};
		let st = guard.stats();
		drop(guard);
		out.evals = 1;
		let path_label = if scn.path == Path::Slice { "slice" } else { "reader" };
		let mut digest = Fnv::new();
		digest.u64(r.items.len() as u64).u64(r.consumed as u64).u64(stats.as_ref().map_or(0, |s| s.digest));
		out.digest = digest.get();
		let mut sig = Fnv::new();
		sig.str("c04-stream").str(path_label).str(scn.target.label()).u64(pattern as u64).u64((n / 256) as u64);
		out.sig(sig);
		if let Some(p) = &r.panicked {
			out.fail(format!("panic:{}", crate::runner::panic_site(p)), format!("long stream, {path_label} path, after {} of {n} datums: {p}", r.items.len()));
			return;
		}
		if let Some(s) = &stats {
			out.steps = s.calls;
			if s.budget_exhausted {
				out.fail("C04:endless-loop-on-source", format!("source step budget exhausted ({} calls for {} bytes, {n} datums)", s.calls, bytes.len()));
				return;
			}
			if !s.contract_violations.is_empty() {
				out.fail("C04:bufread-contract", s.contract_violations[0].clone());
				return;
			}
		}
		if let Some((i, Err(e))) = r.items.iter().enumerate().find(|(_, x)| x.is_err()) {
			out.fail(
				format!("C04:valid-input-within-limits-rejected:long-stream:{path_label}"),
				format!("datum #{i} of {n} refused under limits {limits:?} that every single datum fits (deepest {d}, longest sequence {s}, largest field {f}): {e}"),
			);
			return;
		}
		if matches!(scn.target, Target::Capture { enum_as_u64: false, duration_as_bytes: false }) {
			if let Some(i) = r.items.iter().zip(&vals).position(|(a, b)| a.as_ref().ok() != Some(b)) {
				out.fail("C04:valid-input-within-limits-decodes-to-another-value", format!("long stream, datum #{i} of {n}: {:?} vs {:?}", r.items[i], vals[i]));
				return;
			}
		}
		if r.items.len() != n as usize || r.consumed != bytes.len() {
			out.fail(format!("C04:valid-input:long-stream-stops-at-the-wrong-place:{path_label}"), format!("{} of {n} datums, {} of {} bytes", r.items.len(), r.consumed, bytes.len()));
			return;
		}
		// memory: with the allocation-free target everything the monitor sees is the crate's own. It may depend on the
		// largest datum and the cap, not on how many datums went through.
		if matches!(scn.target, Target::Hash) {
			match &scn.path {
				Path::Slice => {
					if st.allocs != 0 {
						out.fail("C04:slice-path-allocates-on-success", format!("{} allocations over {n} datums, largest {} bytes", st.allocs, st.largest));
						return;
					}
					out.count("slice_success_zero_alloc_confirmed", 1);
				}
				Path::Reader(kind) => {
					let bufreader = if let ReaderKind::BufReader { cap, .. } = kind { *cap } else { 0 };
					// (the property bounds memory by a function of the INPUT LENGTH and the limits: a reader whose scratch
					// buffer keeps every field it has read stays within it — benign control
					// c04_benign_scratch_grows_to_sum_of_fields —, so the bound is stated over the whole stream, exactly as
					// for a single datum)
					let _ = largest_datum;
					let bound = 2 * limits.max_alloc_size as i64 + 4 * bytes.len() as i64 + (256 << 10) + bufreader as i64;
					if st.peak_live > bound {
						out.fail(
							"C04:reader-path-memory-exceeds-configured-cap",
							format!("peak {} bytes live over {n} datums of {} bytes in all (largest field {f}, max_alloc_size {})", st.peak_live, bytes.len(), limits.max_alloc_size),
						);
						return;
					}
				}
			}
		}
		out.count("decode_ok", 1);
	}
}

impl Prop for C04 {
	type Scn = Scn;
	fn id(&self) -> &'static str {
		"C04"
	}
	fn level(&self) -> &'static str {
		"exploration"
	}
	fn isolated(&self) -> bool {
		true
	}
	fn rule(&self) -> &'static str {
		"A scenario is (schema incl. recursive ones, byte string, limit configuration, target, input path). Byte strings are fault-derived: a valid reference encoding in which one length / count / block-size / union-index / enum-index varint is replaced by a hostile number (-1, i64::MIN, i64::MAX, 2^62, 2^31, count+1, count-1, ...), 1-3 byte replacements or bit flips, truncation, insertions, random bytes, and nesting streams of depth limit-1, limit, limit+1, 1000 and 200000 for three recursive schemas; valid encodings are kept too (two-sided limit oracles). \
		 Limit configurations (swarm): allowed_depth in {0,1,2,3,8,64}, max_seq_size in {0,1,2,10,1000,100000}, max_alloc_size in {0,1,16,4096,2^20}; slice path and SimSource (Whole, Fixed(1), Fixed(7), cyclic, BufReader). \
		 Monitors: Ok/Err only (panic caught; abort / stack overflow with the default 8 MiB main-thread stack / allocation above 256 MiB / 60 s hang detected from the parent process); SimAlloc peak and largest request against max_alloc_size and input length with allocation-free targets; zero allocations on the slice path on success; source step budget; visitor callback budget. \
		 An evaluation is one decode. Non-trivial = a hostile field / damage / limit below the value's needs is present; distinct = distinct (schema shape class, generator kind, limit configuration class, path, target, outcome class). Valid encodings include deliberately large-scale ones (two-byte counts and indices, hundreds of fields / branches / symbols, lists 8-15 deep). One scenario in 256 is a nesting stream 4-34 times deeper than allowed_depth decoded AGAIN AND AGAIN on the same deserializer state after every refusal (20-220 attempts): no attempt may return a value nested deeper than the limit. One scenario in 512 is a LONG stream: 250-1150 valid datums (sizes constant / growing / shrinking / sawtooth / small with a large one every 16-1024) decoded through ONE deserializer state under limits that the most demanding single datum just fits (per-datum limits must not accumulate; memory stays within the bound stated over the whole stream; the slice path still allocates nothing). The capturing target also asks every sequence / map accessor for its size_hint(), as Vec and HashMap targets do: a hint above what the input could hold (elements at least one byte wide) is a number written in the input handed to the caller's allocator. Ignoring and partly ignoring targets (fields left to deserialize_ignored_any through the simulator's own counting visitor) are judged too: work in callbacks, the element limit where nothing can be skipped unseen, what is kept, and where the decoder stops."
	}
	fn assumptions(&self) -> Vec<String> {
		vec![
			"the clause 'for every byte string' is a statement over inputs: it is sampled, through fault-derived inputs; what is decided is the environment-facing part (memory, work, stack, limits, both input paths)".into(),
			"max_alloc_size values up to 1 MiB are used (with the 512 MiB default a 400 MB field is, by configuration, allowed to allocate)".into(),
			"memory bounds are checked with allocation-free targets (Hash / IgnoredAny) so that every allocation seen is the crate's own: reader path peak <= 2*max_alloc_size + 4*len + 256 KiB (Vec growth may double; constants generous on purpose: hostile lengths start at 2^20), slice path 0 allocations on Ok and <= 64 KiB on Err".into(),
			"depth oracle, two-sided: 'nesting' is taken in the everyday sense — records, arrays and maps inside one another; a union is a choice, not a level. Err required when that nesting exceeds allowed_depth (the crate charges at least that much: it also charges unions); Ok required only when 2*(nesting incl. unions)+2 <= allowed_depth".into(),
			"the sequence-size oracle is not applied to IgnoredAny / masked targets, which may skip size-prefixed blocks without counting their elements".into(),
		]
	}
	fn expected_probes(&self) -> Vec<&'static str> {
		vec!["long_stream_of_datums", "limit_alloc_size_exceeded_by_valid_input", "limit_depth_exceeded_by_valid_input", "limit_seq_size_exceeded_by_valid_input", "nesting_stream", "reader_scratch_allocation_observed", "slice_success_zero_alloc_confirmed", "valid_input_within_limits"]
	}
	fn budget(&self, tier: Tier) -> (u64, u64) {
		match tier {
			Tier::Quick => (1_500_000, 90),
			Tier::Thorough => (30_000_000, 1200),
		}
	}

	fn gen(&self, rng: &mut Rng, _tier: Tier, run: u64) -> Scn {
		let limits = Limits {
			allowed_depth: *rng.pick(&[0usize, 1, 2, 3, 8, 64, 64]),
			max_seq_size: *rng.pick(&[0usize, 1, 2, 10, 1000, 100_000, 100_000]),
			max_alloc_size: *rng.pick(&[0usize, 1, 16, 4096, 1 << 20, 1 << 20]),
		};
		let path = match rng.below(7) {
			0 | 1 | 2 => Path::Slice,
			3 => Path::Reader(ReaderKind::Direct(RefillPlan::Whole)),
			4 => Path::Reader(ReaderKind::Direct(RefillPlan::Fixed(1))),
			5 => Path::Reader(ReaderKind::Direct(RefillPlan::Fixed(7))),
			_ => {
				if rng.bool() {
					Path::Reader(ReaderKind::Direct(RefillPlan::Cycle(vec![1 + rng.usize(5), 1 + rng.usize(30)])))
				} else {
					Path::Reader(ReaderKind::BufReader { cap: 1 + rng.usize(40), plan: RefillPlan::Whole })
				}
			}
		};
		let target = match rng.below(9) {
			8 => Target::Reject,
			0 | 1 | 2 => Target::capture(),
			3 | 4 => Target::Hash,
			5 => Target::Ignored,
			6 => Target::Masked(rng.next_u64()),
			_ => Target::Blind,
		};
		// LONG streams of valid datums through one deserializer state, under limits each datum just fits
		if run % 512 == 77 {
			let schema = match rng.below(8) {
				0 => Ty::String,
				1 => Ty::Array(Box::new(Ty::String)),
				2 => Ty::Record { name: 0, fields: vec![(0, Ty::Array(Box::new(Ty::Int))), (1, Ty::Bytes)] },
				3 => Ty::Map(Box::new(Ty::Union(vec![Ty::Null, Ty::String]))),
				4 => Ty::Record { name: 0, fields: vec![(0, Ty::Int), (1, Ty::Union(vec![Ty::Null, Ty::Ref(0)]))] },
				5 => Ty::Bytes,
				_ => {
					let mut cfg = GenCfg::default_swarm(rng);
					cfg.recursion = rng.chance(1, 2);
					ast::gen_schema(rng, cfg)
				}
			};
			let pattern = rng.below(7) as u8;
			let n = (250 + rng.below(900) as u32).min(if matches!(pattern, 2 | 3 | 6) { 600 } else { 2000 });
			return Scn {
				schema,
				input: Input::Stream { seed: rng.next_u64(), n, pattern },
				gen_kind: "long-stream".into(),
				via_take: false,
				valid_of: None,
				positive_counts_only: true,
				limits,
				target: if rng.chance(2, 3) { Target::capture() } else { Target::Hash },
				path,
			};
		}
		// a nesting stream far deeper than the limit, retried on one state after every refusal
		if run % 256 == 21 {
			let kind = *rng.pick(&[DeepKind::RecordUnion, DeepKind::RecordArray, DeepKind::RecordMap]);
			let allowed_depth = *rng.pick(&[2usize, 3, 8, 16, 64]);
			return Scn {
				schema: deep_schema(kind),
				input: Input::DeepRetry { kind, depth: (allowed_depth as u32) * (4 + rng.below(30) as u32) + rng.below(7) as u32, attempts: 20 + rng.below(200) as u32 },
				gen_kind: "deep-retry".into(),
				via_take: false,
				valid_of: None,
				positive_counts_only: false,
				limits: Limits { allowed_depth, max_seq_size: 100_000, max_alloc_size: 1 << 20 },
				target: Target::capture(),
				path: if matches!(path, Path::Reader(ReaderKind::BufReader { .. })) { Path::Slice } else { path },
			};
		}
		// nesting streams
		if run % 16 == 5 {
			let kind = *rng.pick(&[DeepKind::RecordUnion, DeepKind::RecordArray, DeepKind::RecordMap]);
			let per_level = if kind == DeepKind::RecordUnion { 2 } else { 2 };
			let lim = limits.allowed_depth as u32 / per_level;
			let depth = *rng.pick(&[lim.saturating_sub(1), lim, lim + 1, lim + 2, 1000, 200_000]);
			return Scn {
				schema: deep_schema(kind),
				input: Input::Deep { kind, depth, terminated: rng.chance(3, 4) },
				gen_kind: "deep".into(),
				via_take: false,
				valid_of: None,
				positive_counts_only: false,
				limits,
				target,
				path,
			};
		}
		let corner = ast::corner_schemas();
		let mut scale = None;
		let schema = if rng.chance(1, 60) {
			let (ty, sc) = ast::gen_scale_schema(rng, true);
			scale = Some(sc);
			ty
		} else if rng.chance(1, 8) {
			rng.pick(&corner).clone()
		} else {
			let mut cfg = GenCfg::default_swarm(rng);
			cfg.recursion = rng.chance(1, 2);
			ast::gen_schema(rng, cfg)
		};
		let env = Env::build(&schema);
		// (one scenario in twenty carries strings of a few hundred bytes with mixed UTF-8 widths: what a refusing
		// caller's error message quotes)
		let vcfg = ValCfg { max_len: 1 + rng.usize(12), max_depth: 5, budget: 8 + rng.below(60) as i32, str_boost: if rng.chance(1, 20) { 600 } else { 0 }, scale: None }.with_scale(scale);
		let v = val::gen_val(rng, &env, &schema, &vcfg);
		let layout = Layout { seed: rng.next_u64(), split_blocks: rng.bool(), negative_counts: rng.chance(1, 3), pad_varints: 0 };
		let (mut bytes, tokens) = ref_datum::encode(&env, &schema, &v, layout).expect("HARNESS: reference encoder rejected a generated value");
		let mut valid_of = Some(v);
		let gen_kind: String = match rng.below(10) {
			0 | 1 => "valid".into(),
			2..=5 => {
				// one hostile number in place of a length / count / index
				let cands: Vec<_> = tokens
					.iter()
					.filter(|t| matches!(t.kind, TokKind::LenPrefix | TokKind::BlockCount | TokKind::BlockSize | TokKind::UnionIndex | TokKind::EnumIndex | TokKind::DecimalInner))
					.collect();
				if cands.is_empty() {
					"valid".into()
				} else {
					let t = **rng.pick(&cands);
					let orig = ref_datum::Decoder::new(&env, &bytes[t.off..]).long().unwrap_or(0);
					let hostile = match rng.below(4) {
						0 => orig + 1,
						1 => orig - 1,
						_ => *rng.pick(&HOSTILE),
					};
					let enc = encode_long(hostile);
					bytes.splice(t.off..t.off + t.len, enc);
					valid_of = None;
					match t.kind {
						TokKind::LenPrefix => "hostile-length".into(),
						TokKind::BlockCount => "hostile-count".into(),
						TokKind::BlockSize => "hostile-block-size".into(),
						TokKind::DecimalInner => "hostile-bigdecimal-inner".into(),
						TokKind::UnionIndex => "hostile-union-index".into(),
						_ => "hostile-enum-index".into(),
					}
				}
			}
			6 => {
				valid_of = None;
				if !bytes.is_empty() {
					for _ in 0..1 + rng.below(3) {
						let i = rng.usize(bytes.len());
						if rng.bool() {
							bytes[i] ^= 1 << rng.below(8);
						} else {
							bytes[i] = rng.next_u64() as u8;
						}
					}
				}
				"damaged".into()
			}
			7 => {
				valid_of = None;
				let n = rng.usize(bytes.len() + 1);
				bytes.truncate(n);
				"truncated".into()
			}
			8 => {
				valid_of = None;
				let i = rng.usize(bytes.len() + 1);
				bytes.insert(i, *rng.pick(&[0x80u8, 0xff, 0x01, 0x00, 0xfe]));
				"inserted".into()
			}
			_ => {
				valid_of = None;
				let n = rng.usize(40);
				bytes = rng.bytes(n);
				"random".into()
			}
		};
		Scn { schema, input: Input::Bytes(bytes), gen_kind, valid_of, positive_counts_only: !layout.negative_counts, limits, target, via_take: matches!(path, Path::Reader(ReaderKind::Direct(_))) && rng.chance(1, 3), path }
	}

	fn exec(&self, scn: &Scn) -> Outcome {
		let mut out = Outcome::default();
		let env = Env::build(&scn.schema);
		let schema = match world::parse_schema(&scn.schema) {
			Ok(s) => s,
			Err(e) => {
				out.fail("harness:C04:schema", e);
				return out;
			}
		};
		if let Input::Stream { seed, n, pattern } = &scn.input {
			self.exec_stream(scn, &env, &schema, *seed, *n, *pattern, &mut out);
			return out;
		}
		if let Input::DeepRetry { kind, depth, attempts } = &scn.input {
			out.count("nesting_stream_retried_on_one_state", 1);
			let bytes = deep_bytes(*kind, *depth, true);
			let lim = scn.limits;
			let r = match &scn.path {
				Path::Slice => world::decode_stream_slice_ext(&schema, &env, &scn.schema, &bytes, *attempts as usize, Target::capture(), lim, false),
				Path::Reader(k) => world::decode_stream_reader_ext(&schema, &env, &scn.schema, &bytes, *attempts as usize, Target::capture(), lim, k, false).0,
			};
			out.evals = 1;
			let mut sig = Fnv::new();
			sig.str("c04-deep-retry").u64(*kind as u64).u64(lim.allowed_depth as u64).u64(matches!(scn.path, Path::Slice) as u64);
			out.sig(sig);
			let mut d = Fnv::new();
			d.u64(r.items.len() as u64).u64(r.items.iter().filter(|x| x.is_ok()).count() as u64);
			out.digest = d.get();
			if let Some(p) = &r.panicked {
				out.fail(format!("panic:{}", crate::runner::panic_site(p)), format!("nesting stream retried on one state, after {} attempts: {p}", r.items.len()));
				return out;
			}
			for (i, it) in r.items.iter().enumerate() {
				if let Ok(v) = it {
					if val_nesting(v) > lim.allowed_depth {
						out.fail(
							"C04:depth-limit-not-enforced:after-earlier-refusals",
							format!("attempt #{i} on the same deserializer state returned a value whose records / arrays / maps nest {} deep; allowed_depth is {} ({} refusals before it)", val_nesting(v), lim.allowed_depth, r.items[..i].iter().filter(|x| x.is_err()).count()),
						);
						return out;
					}
				}
			}
			out.count("decode_err", 1);
			return out;
		}
		let owned;
		let bytes: &[u8] = match &scn.input {
			Input::Stream { .. } | Input::DeepRetry { .. } => unreachable!(),
			Input::Bytes(b) => b,
			Input::Deep { kind, depth, terminated } => {
				owned = deep_bytes(*kind, *depth, *terminated);
				&owned
			}
		};
		let len = bytes.len();
		let alloc_free_target = matches!(scn.target, Target::Hash | Target::Ignored);
		// work bound, in visitor callbacks: the ignoring target gives up right above it instead of spinning
		let cb_bound = (len as u64 + 2) * (scn.limits.max_seq_size as u64 + 2) * 4 + 64;
		world::IGNORE_CALLBACK_CAP.with(|c| c.set(cb_bound + 1));
		crate::capture::SIZE_HINT_WATCH.with(|w| w.set((len, None)));
		world::VIA_TAKE.with(|v| v.set(scn.via_take));
		if scn.via_take {
			out.count("reader_path_through_take", 1);
		}
		let guard = simalloc::MeasureGuard::start();
		let (dec, src_stats) = match &scn.path {
			Path::Slice => (world::decode_slice(&schema, &env, &scn.schema, bytes, scn.target, scn.limits), None),
			Path::Reader(kind) => {
				let (d, s) = world::decode_reader(&schema, &env, &scn.schema, bytes, scn.target, scn.limits, kind, &[]);
				(d, Some(s))
			}
		};
		let st = guard.stats();
		drop(guard);
		world::VIA_TAKE.with(|v| v.set(false));
		let worst_hint = crate::capture::SIZE_HINT_WATCH.with(|w| w.replace((usize::MAX, None))).1;
		out.evals = 1;
		let ok = dec.res.is_ok();
		if let Some(h) = worst_hint {
			// what a caller's Vec / HashMap reserves on the word of the accessor: a number written in the input
			out.fail("C04:size-hint-exceeds-what-the-input-can-hold", format!("a sequence / map accessor's size_hint() said {h} elements (each at least one byte wide) for a {len}-byte input"));
			return out;
		}
		let lim = &scn.limits;
		let path_label = match &scn.path {
			Path::Slice => "slice",
			Path::Reader(_) => "reader",
		};
		if let Some(s) = &src_stats {
			out.steps = s.calls;
			if s.budget_exhausted {
				out.fail("C04:endless-loop-on-source", format!("source step budget exhausted ({} calls for {len} bytes)", s.calls));
				return out;
			}
			if !s.contract_violations.is_empty() {
				out.fail("C04:bufread-contract", s.contract_violations[0].clone());
				return out;
			}
		}
		let mut digest = Fnv::new();
		digest.u64(ok as u64).u64(dec.callbacks).u64(src_stats.as_ref().map_or(0, |s| s.digest));
		out.digest = digest.get();
		// memory
		if alloc_free_target {
			match &scn.path {
				Path::Slice => {
					if ok && st.allocs != 0 {
						out.fail("C04:slice-path-allocates-on-success", format!("{} allocations, largest {} bytes", st.allocs, st.largest));
						return out;
					}
					if !ok && st.peak_live > (64 << 10) {
						out.fail("C04:slice-path-memory-on-error", format!("peak {} bytes live for a {len}-byte input", st.peak_live));
						return out;
					}
					if ok {
						out.count("slice_success_zero_alloc_confirmed", 1);
					}
				}
				Path::Reader(kind) => {
					let bufreader = if let ReaderKind::BufReader { cap, .. } = kind { *cap } else { 0 };
					// generous constants on purpose: the monitor is after allocations driven by numbers written in the
					// input (hostile lengths start at 2^20 here), not after a reader that pre-allocates a few KiB
					let bound = 2 * lim.max_alloc_size as i64 + 4 * len as i64 + (256 << 10) + bufreader as i64;
					if st.peak_live > bound {
						out.fail(
							"C04:reader-path-memory-exceeds-configured-cap",
							format!("peak {} bytes live, largest request {}, max_alloc_size {} ({len}-byte input)", st.peak_live, st.largest, lim.max_alloc_size),
						);
						return out;
					}
					if st.largest > 0 {
						out.count("reader_scratch_allocation_observed", 1);
					}
				}
			}
		} else if st.largest > (64 << 20) {
			out.fail("C04:huge-single-allocation", format!("{} bytes requested at once for a {len}-byte input", st.largest));
			return out;
		}
		// work
		if matches!(scn.target, Target::Ignored) && dec.callbacks > 0 {
			out.count("ignored_target_callbacks_counted", 1);
		}
		if dec.callbacks > cb_bound {
			out.fail("C04:work-not-bounded-by-input-and-limits", format!("{} visitor callbacks for {len} bytes with max_seq_size {}", dec.callbacks, lim.max_seq_size));
			return out;
		}

		// limit oracles on valid encodings
		let mut nontrivial = scn.valid_of.is_none();
		// (a caller that refuses the leaves it is given makes no claim on the value: only the monitors above apply)
		let valid_of = if scn.target == Target::Reject { None } else { scn.valid_of.as_ref() };
		if scn.target == Target::Reject && !ok {
			out.count("refusing_caller_got_err", 1);
		}
		if let Some(v) = valid_of {
			let mut classes = vec![];
			crate::val::scale_classes(v, &mut classes);
			classes.into_iter().for_each(|c| out.count(c, 1));
			let d = val_depth(v);
			let s = max_seq(v);
			let f = max_field_len(v);
			let counts_sequences = matches!(scn.target, Target::Capture { .. } | Target::Hash | Target::Blind);
			let alloc_limited = matches!(scn.path, Path::Reader(_)) && f > lim.max_alloc_size && f > max_chunk(&scn.path, len);
			if matches!(scn.target, Target::Ignored) && scn.positive_counts_only && s > lim.max_seq_size && val_nesting(v) <= lim.allowed_depth && !alloc_limited {
				// nothing in this encoding can be skipped by its byte size: every element is walked, so the
				// limit on the number of elements applies to an ignoring caller as to any other
				nontrivial = true;
				out.count("limit_seq_size_exceeded_by_valid_input_ignoring_target", 1);
				if ok {
					out.fail("C04:max-seq-size-not-enforced:ignoring-target", format!("a sequence holds {s} elements in plain (positive-count) blocks, max_seq_size is {}, deserialize_ignored_any returned Ok", lim.max_seq_size));
					return out;
				}
			} else if !counts_sequences && 2 * d + 2 <= lim.allowed_depth && s <= lim.max_seq_size && (matches!(scn.path, Path::Slice) || f.max(SCALAR_FIELD_MAX) <= lim.max_alloc_size) {
				// a target that ignores some (or all) of the value: what it does keep must be what was written, and the
				// decoder must stop exactly where the value ends (skipping is decoding too)
				out.count("valid_input_within_limits_ignoring_target", 1);
				match &dec.res {
					Ok(got) => {
						if matches!(scn.target, Target::Masked(_)) && !crate::val::eq_modulo_mask(got, v) {
							out.fail("C04:valid-input-within-limits-decodes-to-another-value:partly-ignoring-target", format!("{got:?} vs {v:?}"));
							return out;
						}
						if dec.consumed != len {
							out.fail(format!("C04:valid-input:ignoring-target-stops-at-the-wrong-place:{path_label}"), format!("consumed {} of {len} bytes", dec.consumed));
							return out;
						}
					}
					Err(e) => {
						out.fail(format!("C04:valid-input-within-limits-rejected:ignoring-target:{path_label}"), format!("limits {lim:?}: {e}"));
						return out;
					}
				}
			} else if !counts_sequences {
				// IgnoredAny / masked targets may skip size-prefixed blocks wholesale: no limit oracle
				out.count("valid_input_skipping_target", 1);
			} else if val_nesting(v) > lim.allowed_depth {
				nontrivial = true;
				out.count("limit_depth_exceeded_by_valid_input", 1);
				if ok {
					out.fail("C04:depth-limit-not-enforced", format!("records / arrays / maps nest {} deep, allowed_depth is {}, decode returned Ok", val_nesting(v), lim.allowed_depth));
					return out;
				}
			} else if s > lim.max_seq_size {
				nontrivial = true;
				out.count("limit_seq_size_exceeded_by_valid_input", 1);
				if ok {
					out.fail("C04:max-seq-size-not-enforced", format!("a sequence holds {s} elements, max_seq_size is {}, decode returned Ok", lim.max_seq_size));
					return out;
				}
			} else if alloc_limited {
				nontrivial = true;
				out.count("limit_alloc_size_exceeded_by_valid_input", 1);
				if ok {
					out.fail("C04:max-alloc-size-not-enforced", format!("a field of {f} bytes was read through a reader with max_alloc_size {}", lim.max_alloc_size));
					return out;
				}
			} else if 2 * d + 2 <= lim.allowed_depth && s <= lim.max_seq_size && (matches!(scn.path, Path::Slice) || f.max(SCALAR_FIELD_MAX) <= lim.max_alloc_size) {
				out.count("valid_input_within_limits", 1);
				match &dec.res {
					Ok(got) => {
						if matches!(scn.target, Target::Capture { enum_as_u64: false, duration_as_bytes: false }) && got != v {
							out.fail("C04:valid-input-within-limits-decodes-to-another-value", format!("{got:?} vs {v:?}"));
							return out;
						}
					}
					Err(e) => {
						out.fail(format!("C04:valid-input-within-limits-rejected:{path_label}"), format!("limits {lim:?}: {e}"));
						return out;
					}
				}
			}
		}
		if let Input::Deep { depth, .. } = &scn.input {
			nontrivial = true;
			out.count("nesting_stream", 1);
			// every level of these recursive schemas is (at least) one record inside another
			if (*depth as usize) > lim.allowed_depth && ok {
				out.fail("C04:depth-limit-not-enforced", format!("{depth} nested levels decoded with allowed_depth {}", lim.allowed_depth));
				return out;
			}
		}
		if nontrivial {
			let mut sig = Fnv::new();
			sig.str("c04").str(&scn.gen_kind).str(path_label).str(scn.target.label()).u64(ok as u64);
			sig.u64(match lim.allowed_depth {
				0 => 0,
				1..=3 => 1,
				_ => 2,
			});
			sig.u64(match lim.max_seq_size {
				0 => 0,
				1..=10 => 1,
				_ => 2,
			});
			sig.u64(match lim.max_alloc_size {
				0 => 0,
				1..=16 => 1,
				_ => 2,
			});
			sig.u64(match &scn.schema {
				Ty::Record { .. } => 1,
				Ty::Union(_) => 2,
				Ty::Array(_) | Ty::Map(_) => 3,
				_ => 0,
			});
			out.sig(sig);
		}
		out.count(if ok { "decode_ok" } else { "decode_err" }, 1);
		out
	}

	fn shrink(&self, scn: &Scn) -> Vec<Scn> {
		let mut c = vec![];
		if scn.path != Path::Slice {
			let mut s = scn.clone();
			s.path = Path::Slice;
			c.push(s);
		}
		if scn.target != Target::capture() {
			let mut s = scn.clone();
			s.target = Target::capture();
			c.push(s);
		}
		if let Input::Bytes(b) = &scn.input {
			if scn.valid_of.is_none() && b.len() > 1 {
				for cut in [b.len() / 2, b.len() - 1] {
					let mut s = scn.clone();
					s.input = Input::Bytes(b[..cut].to_vec());
					c.push(s);
				}
			}
		}
		if let Input::Stream { seed, n, pattern } = &scn.input {
			for nn in [n / 2, n - n / 8 - 1, n - 1] {
				if nn > 0 && nn < *n {
					let mut s = scn.clone();
					s.input = Input::Stream { seed: *seed, n: nn, pattern: *pattern };
					c.push(s);
				}
			}
		}
		if let Input::Deep { kind, depth, terminated } = &scn.input {
			if *depth > 4 {
				let mut s = scn.clone();
				s.input = Input::Deep { kind: *kind, depth: depth / 2, terminated: *terminated };
				c.push(s);
			}
		}
		c
	}
}
