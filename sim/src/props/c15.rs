//! C15 — container writer: valid file at every quiescent point; failed values leave none.
//! Crash points = "the process stops after this API call returned": the bytes the sink has
//! accepted at that moment are all that survives.

use crate::ast::Env;
use crate::container::{self, End, FileSpec, Op, SpecProfile, StepResult};
use crate::prng::{Fnv, Rng};
use crate::props::c05::{op_label, shrink_spec};
use crate::ref_container;
use crate::runner::{panic_site, Outcome, Prop, Tier};
use crate::simio::SimSink;
use crate::val::{PoisonKind, Val};
use serde_derive::{Deserialize, Serialize};

#[derive(Clone, Debug, Serialize, Deserialize)]
pub struct Scn {
	pub spec: FileSpec,
	/// `Some(j)`: a second run in which the sink refuses (cleanly, nothing accepted) the first write of the j-th explicit
	/// `finish_block` that has something to write, and is healthy again afterwards. Values of 16 and above: j % 16 is that
	/// index, and the sink refuses a SECOND time, (j / 16 - 1) sink calls after the first refusal's retry slot (0 = the
	/// retry of the refused block itself): two faults in one history, each of which alone is handled correctly
	#[serde(default)]
	pub failed_finish: Option<u32>,
}

pub struct C15;

struct Snap {
	step: StepResult,
	bytes: Vec<u8>,
	model_len: usize,
}

impl Prop for C15 {
	type Scn = Scn;
	fn id(&self) -> &'static str {
		"C15"
	}
	fn level(&self) -> &'static str {
		"exploration"
	}
	fn rule(&self) -> &'static str {
		"A scenario is a writer history (<= 16 ops) over {serialize ok, serialize poisoned at serde call #n with kind Err | wrong type | missing field | duplicated field (any depth: nested out-of-order record, array element, after bytes were already appended), \
		 push_serialized (real / reference pre-serialisation), finish_block} ended by into_inner | drop, x codec x approx_block_size (0, 1, tiny, exact datum-size boundaries +-1, large) x user metadata. \
		 After EVERY API call that returned, the bytes accepted by the sink are snapshotted (= crash point) and judged by the reference container parser + reference datum decoder. \
		 An evaluation is one snapshot judged. A case is non-trivial when the history holds a failing value or a flush; distinct = distinct (op kind, result, poison kind, nesting depth of the failure, objects pending in the open block, codec, approx_block_size class). One scenario in 250 is a big-blob workload (block sizes across the 8 / 32 / 64 KiB marks); one in four gets a SECOND run in which the sink refuses, cleanly, the first write of an explicit finish_block and is healthy afterwards: every later call that returns Ok is judged like any other (in half of those runs the sink refuses a SECOND time, at the retry of the refused block or one to two flushes later). One scenario in 400 is a LONG history (Op::Many): up to 500 calls with every k-th value failing half-way and every j-th pushed pre-serialized, or 65 530-135 000 tiny values in one block; every call's return is still a crash point."
	}
	fn assumptions(&self) -> Vec<String> {
		vec![
			"the sink accepts everything (C15 quantifies over histories and crash points; sink faults are C16's), except for one case inside the statement's 'whenever a call has returned without error': an explicit finish_block whose write the sink refuses cleanly (nothing accepted), after which the sink is healthy and every later successful call is judged like any other".into(),
			"a crash is modelled as 'nothing after the last accepted byte exists'; the crate never calls flush/sync, so there is no further durability layer to model".into(),
		]
	}
	fn expected_probes(&self) -> Vec<&'static str> {
		vec!["long_history", "automatic_flush_on_threshold", "caller_failure_err_fired", "caller_failure_wrong_type_fired", "caller_failure_missing_field_fired", "caller_failure_duplicate_field_fired", "caller_failure_abandoned_sequence_fired", "drop_with_open_block", "failing_value_first_of_block", "failing_value_mid_or_last_of_block", "failure_inside_nested_record_depth_ge_2", "finish_block_on_empty_block", "push_crossing_threshold"]
	}
	fn budget(&self, tier: Tier) -> (u64, u64) {
		match tier {
			Tier::Quick => (400_000, 90),
			Tier::Thorough => (8_000_000, 1200),
		}
	}

	fn gen(&self, rng: &mut Rng, _tier: Tier, _run: u64) -> Scn {
		let profile = SpecProfile {
			poison: true,
			max_ops: 16,
			heavy_codecs: rng.chance(1, 8),
			big_blobs: false,
			min_width_one: false,
			push_ops: true,
			scale: 1,
		};
		if rng.chance(1, 250) {
			// blocks whose (compressed) size crosses the encoders' starting buffers, the 8 KiB and the 64 KiB marks
			let codec = container::gen_codec_ext(rng, true, false);
			return Scn { spec: container::gen_blob_spec(rng, codec), failed_finish: None };
		}
		if rng.chance(1, 400) {
			// a LONG history (hundreds of calls, values that fail half-way among them; or more than 65 535 objects in
			// one block): every call's return is still a crash point
			let mut spec = container::gen_long_spec(rng, &profile, 140_000);
			for op in spec.ops.iter_mut() {
				if let Op::Many { n, pattern, .. } = op {
					// (every snapshot is kept: bound the bytes held)
					if matches!(*pattern, 2 | 3 | 6) {
						*n = (*n).min(150);
					} else if *n < 60_000 {
						*n = (*n).min(500);
					}
				}
			}
			return Scn { spec, failed_finish: None };
		}
		Scn {
			spec: container::gen_filespec(rng, &profile),
			failed_finish: if rng.chance(1, 4) { Some(rng.below(3) as u32 + if rng.bool() { 16 * (1 + rng.below(3) as u32) } else { 0 }) } else { None },
		}
	}

	fn exec(&self, scn: &Scn) -> Outcome {
		let mut out = Outcome::default();
		container::count_scale(&scn.spec, &mut out);
		let expanded = scn.spec.expanded();
		let spec = &*expanded;
		let env = Env::build(&spec.schema);
		let sink = SimSink::all();
		let mut snaps: Vec<Snap> = vec![];
		let sink2 = sink.clone();
		let run = container::run_writer(spec, &sink, |st, model| {
			snaps.push(Snap {
				step: st.clone(),
				bytes: sink2.accepted(),
				model_len: model.len(),
			});
			true
		});
		out.steps += sink.calls();
		let model: &[Val] = &run.model;
		let mut digest = Fnv::new();
		let codec = spec.codec.name();
		let approx_class: u64 = match spec.approx_block_size {
			0 => 0,
			1 => 1,
			2..=64 => 2,
			65..=8192 => 3,
			_ => 4,
		};
		let mut prev: Option<&Snap> = None;
		let mut prev_decoded = 0usize;
		for (si, snap) in snaps.iter().enumerate() {
			out.evals += 1;
			let st = &snap.step;
			let op = if st.op == usize::MAX { None } else { spec.ops.get(st.op) };
			let label = if st.op == usize::MAX {
				"build"
			} else if st.op == spec.ops.len() {
				match spec.end {
					End::IntoInner => "into_inner",
					End::Drop => "drop",
				}
			} else {
				op_label(op)
			};
			digest.bytes(&snap.bytes).str(label).u64(st.res.is_ok() as u64);
			if let Some(p) = &st.panicked {
				out.fail(format!("C15:panic:{label}:{}", panic_site(p)), format!("step {si} ({label}): {p}"));
				break;
			}
			let poisoned = matches!(op, Some(Op::Serialize { poison: Some(_), .. })) || matches!(op, Some(Op::SerializeAll { items }) if items.iter().any(|i| i.2.is_some()));
			match &st.res {
				Err(e) if e.starts_with("HARNESS") || e.starts_with("PRE-SERIALIZE") => {
					out.fail(format!("harness:C15:{label}"), e.clone());
					break;
				}
				Err(e) if !poisoned => {
					out.fail(format!("C15:clean-op-failed:{label}:{codec}"), format!("step {si}: a call with a conforming value returned Err: {e}"));
					break;
				}
				_ => {}
			}
			if st.poison_fired && st.res.is_ok() {
				// (for serialize_all too: an item whose Serialize impl failed must stop the call with Err)
				out.fail(format!("C15:failed-value-accepted:{codec}"), format!("step {si}: the value's Serialize impl failed / mis-presented, yet the call returned Ok"));
				break;
			}
			// monotone: every snapshot extends the previous one
			if let Some(p) = prev {
				if !snap.bytes.starts_with(&p.bytes) {
					out.fail(format!("C15:sink-bytes-rewritten:{label}"), format!("step {si}: accepted stream is not an extension of the previous snapshot"));
					break;
				}
			}
			// the snapshot is a complete valid file holding a prefix of the accepted values
			let parsed = match ref_container::parse(&snap.bytes) {
				Ok(p) => p,
				Err(e) => {
					out.fail(
						format!("C15:snapshot-not-a-valid-file:after-{label}:{codec}"),
						format!("step {si} ({label}, returned {:?}): reference parser: {e}", st.res.as_ref().map(|_| ()).map_err(|e| e.as_str())),
					);
					break;
				}
			};
			let decoded = match parsed.decode_values(&env, &spec.schema) {
				Ok(v) => v,
				Err(e) => {
					out.fail(format!("C15:snapshot-blocks-undecodable:after-{label}:{codec}"), format!("step {si}: {e}"));
					break;
				}
			};
			let upto = snap.model_len;
			if decoded.len() > upto || decoded[..] != model[..decoded.len()] {
				out.fail(
					format!("C15:snapshot-not-a-prefix:after-{label}:{codec}"),
					format!(
						"step {si}: file holds {} values, {} were accepted so far; first difference at {:?}",
						decoded.len(),
						upto,
						decoded.iter().zip(model).position(|(a, b)| a != b)
					),
				);
				break;
			}
			if parsed.total_count() as usize != decoded.len() {
				out.fail(format!("C15:block-counts:after-{label}"), format!("step {si}: counts sum to {} but {} values decode", parsed.total_count(), decoded.len()));
				break;
			}
			let flushing = matches!(op, Some(Op::FinishBlock)) || st.op == spec.ops.len();
			if flushing && st.res.is_ok() && decoded.len() != upto {
				out.fail(
					format!("C15:not-all-values-after-{label}:{codec}"),
					format!("step {si}: {} values accepted, file holds {}", upto, decoded.len()),
				);
				break;
			}
			if decoded.len() < prev_decoded {
				out.fail(format!("C15:values-disappeared:after-{label}"), format!("step {si}"));
				break;
			}
			// signature + probes
			let pending = upto - decoded.len();
			let mut sig = Fnv::new();
			sig.str(label).u64(st.res.is_ok() as u64).u64(spec.codec.idx()).u64(approx_class).u64(pending.min(4) as u64);
			if let Some(Op::Serialize { poison: Some(p), .. }) = op {
				sig.u64(p.kind as u64 + 1);
				if st.res.is_err() {
					out.count(
						match p.kind {
							PoisonKind::Err => "caller_failure_err_fired",
							PoisonKind::WrongType => "caller_failure_wrong_type_fired",
							PoisonKind::MissingField => "caller_failure_missing_field_fired",
							PoisonKind::DupField => "caller_failure_duplicate_field_fired",
							PoisonKind::AbortMidSeq => "caller_failure_abandoned_sequence_fired",
						},
						1,
					);
					let prev_pending = prev.map_or(0, |p| p.model_len - prev_decoded);
					out.count(
						if prev_pending == 0 { "failing_value_first_of_block" } else { "failing_value_mid_or_last_of_block" },
						1,
					);
					if decoded.len() > prev_decoded {
						out.count("pending_block_flushed_during_failing_call", 1);
					}
				}
			}
			if matches!(op, Some(Op::FinishBlock)) && prev.map_or(true, |p| p.model_len == prev_decoded) {
				out.count("finish_block_on_empty_block", 1);
			}
			if st.op == spec.ops.len() && spec.end == End::Drop && prev.map_or(false, |p| p.model_len > prev_decoded) {
				out.count("drop_with_open_block", 1);
			}
			if matches!(op, Some(Op::Serialize { poison: None, .. })) && decoded.len() > prev_decoded {
				out.count("automatic_flush_on_threshold", 1);
			}
			if matches!(op, Some(Op::PushCrate { .. } | Op::PushRef { .. })) && decoded.len() > prev_decoded {
				out.count("push_crossing_threshold", 1);
			}
			out.sig(sig);
			prev = Some(snap);
			prev_decoded = decoded.len();
		}
		// ---- second run: an explicit finish_block meets a sink that refuses the write (nothing accepted) and recovers.
		// "Whenever a call has returned without error, the bytes delivered so far form a complete, valid file holding a
		// prefix of the successfully serialized values": that includes every call after the failed one.
		if let (false, Some(j)) = (out.failed(), scn.failed_finish) {
			let writing_finishes: Vec<u64> = snaps
				.windows(2)
				.filter(|w| w[1].step.op < spec.ops.len() && matches!(spec.ops.get(w[1].step.op), Some(Op::FinishBlock)) && w[1].step.sink_calls > w[0].step.sink_calls)
				.map(|w| w[0].step.sink_calls)
				.collect();
			// (a refusal that lands in Drop's own flush cannot be reported by Drop, which panics on purpose in debug
			// builds — DESIGN §7.2: histories ended by drop get the first refusal only)
			let second = if j >= 16 && spec.end != End::Drop { Some((j / 16 - 1) as u64) } else { None };
			let j = j % 16;
			if let Some(&at_call) = writing_finishes.get(j as usize % writing_finishes.len().max(1)) {
				out.count("explicit_finish_block_meets_failing_sink", 1);
				let mut faults = vec![crate::simio::SinkFault { at_call, kind: crate::simio::SinkFaultKind::Hard(crate::simio::IoErrKind::Other) }];
				if let Some(k) = second {
					// (with an accept-everything sink every call after the header is the only write of a block flush: a refusal
					// there is clean too)
					out.count("sink_refuses_a_second_time", 1);
					faults.push(crate::simio::SinkFault { at_call: at_call + 1 + k, kind: crate::simio::SinkFaultKind::Hard(crate::simio::IoErrKind::BrokenPipe) });
				}
				let n_faults = faults.len();
				let sink = SimSink::all().with_faults(faults);
				let sink2 = sink.clone();
				let mut snaps2: Vec<Snap> = vec![];
				let run2 = container::run_writer(spec, &sink, |st, model| {
					snaps2.push(Snap { step: st.clone(), bytes: sink2.accepted(), model_len: model.len() });
					true
				});
				// what the file may hold: the values of every call that returned Ok, in order ("required"), plus — all or none —
				// the values of a call that failed only because the sink refused a write ("optional": such a value was
				// serialized into the block, and the block is written by a later call; the property speaks of calls that
				// returned without error, not of what becomes of a value whose call reported the sink's failure)
				let mut expected: Vec<(Val, bool)> = vec![];
				let mut expected_len_after: Vec<usize> = vec![];
				{
					let mut before = 0usize;
					for (si, st) in run2.steps.iter().enumerate() {
						let after = run2.model_len_after[si];
						for v in &run2.model[before..after] {
							expected.push((v.clone(), true));
						}
						let op = if st.op == usize::MAX { None } else { spec.ops.get(st.op) };
						// (the value in flight when the call failed: it failed on its own account — and was rolled back — only if
						// the caller-side failure really fired during this call)
						if st.res.is_err() && !st.poison_fired {
							match op {
								Some(Op::Serialize { val, .. }) => expected.push((val.clone(), false)),
								Some(Op::SerializeAll { items }) => {
									if let Some(it) = items.get(after - before) {
										expected.push((it.0.clone(), false));
									}
								}
								Some(Op::PushCrate { vals }) | Some(Op::PushRef { vals, .. }) => vals.iter().for_each(|v| expected.push((v.clone(), false))),
								Some(Op::Blob { len, seed, compressible }) => expected.push((Val::Bytes(container::blob(*len, *seed, *compressible)), false)),
								_ => {}
							}
						}
						before = after;
						expected_len_after.push(expected.len());
					}
				}
				// `decoded` matches a prefix of `expected` in which optional entries may be left out; with `complete`,
				// every required entry must have been matched
				fn matches(decoded: &[Val], expected: &[(Val, bool)], complete: bool) -> bool {
					match decoded.split_first() {
						None => !complete || expected.iter().all(|e| !e.1),
						Some((d, rest)) => match expected.split_first() {
							None => false,
							Some((e, erest)) => (e.0 == *d && matches(rest, erest, complete)) || (!e.1 && matches(decoded, erest, complete)),
						},
					}
				}
				let mut seen_failure = false;
				let mut clean_failures = 0usize;
				for (si, snap) in snaps2.iter().enumerate() {
					out.evals += 1;
					let st = &snap.step;
					let op = if st.op == usize::MAX { None } else { spec.ops.get(st.op) };
					let label = if st.op == spec.ops.len() { "end" } else { op_label(op) };
					if let Some(p) = &st.panicked {
						out.fail(format!("C15:panic:after-failed-finish_block:{label}:{}", panic_site(p)), format!("step {si}: {p}"));
						break;
					}
					let poisoned = st.poison_fired;
					if st.res.is_err() {
						if clean_failures < n_faults && !poisoned {
							// a refused write surfaces here (that it does is C16's business)
							seen_failure = true;
							clean_failures += 1;
						} else if !poisoned {
							out.fail(format!("C15:clean-op-failed:after-failed-finish_block:{label}:{codec}"), format!("step {si}: {:?}", st.res));
							break;
						}
						continue;
					}
					// the call returned without error: the sink holds a complete valid file with a prefix of the values
					let verdict = ref_container::parse(&snap.bytes).and_then(|p| p.decode_values(&env, &spec.schema).map(|v| (p.total_count(), v)));
					match verdict {
						Err(e) => {
							out.fail(format!("C15:snapshot-not-a-valid-file:after-failed-finish_block:{label}:{codec}"), format!("step {si} ({label} returned Ok after the sink had refused a finish_block and recovered): {e}"));
							break;
						}
						Ok((count, decoded)) => {
							let exp = &expected[..expected_len_after[si]];
							if count as usize != decoded.len() || !matches(&decoded, exp, false) {
								out.fail(format!("C15:snapshot-not-a-prefix:after-failed-finish_block:{label}:{codec}"), format!("step {si}: file holds {} values (counts say {count}), {} accepted so far (+ {} of calls that reported a refused write); file: {:?}; expected (value, required): {:?}", decoded.len(), snap.model_len, exp.iter().filter(|e| !e.1).count(), decoded, exp));
								break;
							}
							let flushing = matches!(op, Some(Op::FinishBlock)) || st.op == spec.ops.len();
							if flushing && !matches(&decoded, exp, true) {
								out.fail(format!("C15:not-all-values-after-{label}:after-failed-finish_block:{codec}"), format!("step {si}: {} values accepted, file holds {}", snap.model_len, decoded.len()));
								break;
							}
						}
					}
				}
				if !seen_failure && !out.failed() {
					out.count("refused_write_did_not_surface_as_an_error", 1);
				}
			}
		}
		if !out.failed() && run.poison_fired > 0 {
			out.count("poison_fired", run.poison_fired);
			for d in &run.poison_depths {
				if *d >= 2 {
					out.count("failure_inside_nested_record_depth_ge_2", 1);
				}
			}
		}
		out.digest = digest.get();
		out
	}

	fn shrink(&self, scn: &Scn) -> Vec<Scn> {
		let mut c: Vec<Scn> = shrink_spec(&scn.spec).into_iter().map(|spec| Scn { spec, failed_finish: scn.failed_finish }).collect();
		// turn poisoned values into clean ones
		for (i, op) in scn.spec.ops.iter().enumerate() {
			if let Op::Serialize { val, pres, poison: Some(_) } = op {
				let mut s = scn.clone();
				s.spec.ops[i] = Op::Serialize {
					val: val.clone(),
					pres: *pres,
					poison: None,
				};
				c.push(s);
			}
		}
		if scn.spec.end == End::Drop {
			let mut s = scn.clone();
			s.spec.end = End::IntoInner;
			c.push(s);
		}
		c
	}
}
