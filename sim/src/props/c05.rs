//! C05 — container round trip for every codec, level, block size, flush pattern.
//! Fault-free configuration of the container world (run separately from C15–C17 so that no
//! relaxation can hide an ordinary bug). The schedule dimension is the reader's refill schedule.

use crate::ast::Env;
use crate::container::{self, FileSpec, Item, Op, RKind, SpecProfile};
use crate::prng::{Fnv, Rng};
use crate::ref_container;
use crate::runner::{panic_site, Outcome, Prop, Tier};
use crate::simio::SimSink;
use crate::val::{PresCfg, Val};
use serde_derive::{Deserialize, Serialize};

#[derive(Clone, Debug, Serialize, Deserialize)]
pub struct Scn {
	pub spec: FileSpec,
	pub rk_seed: u64,
	pub n_kinds: usize,
	pub only_kind: Option<RKind>,
}

pub struct C05;

pub fn op_label(op: Option<&Op>) -> &'static str {
	match op {
		None => "end",
		Some(Op::Serialize { .. }) => "serialize",
		Some(Op::SerializeAll { .. }) => "serialize-all",
		Some(Op::Blob { .. }) => "serialize-blob",
		Some(Op::PushCrate { .. }) => "push-crate",
		Some(Op::PushRef { .. }) => "push-ref",
		Some(Op::FinishBlock) => "finish-block",
		Some(Op::Many { .. }) => "many",
	}
}

pub fn size_class(n: usize) -> u64 {
	let m = n % 8192;
	let near = if n >= 8189 && (m <= 3 || m >= 8189) { 1 } else { 0 };
	let big = if n > 32768 { 2 } else { 0 };
	let bucket = match n {
		0 => 0,
		1..=15 => 1,
		16..=255 => 2,
		256..=4095 => 3,
		4096..=32767 => 4,
		_ => 5,
	};
	bucket * 4 + near + big
}

/// Shared by C05 and C06: write the file with the real writer, all ops must succeed
pub fn write_clean(spec: &FileSpec, prop: &str, out: &mut Outcome) -> Option<(Vec<u8>, Vec<Val>)> {
	let sink = SimSink::all();
	let run = container::run_writer(spec, &sink, |_, _| true);
	out.steps += sink.calls();
	for st in &run.steps {
		let op = if st.op == usize::MAX { None } else { spec.ops.get(st.op) };
		let label = if st.op == usize::MAX { "build" } else { op_label(op) };
		if let Some(p) = &st.panicked {
			out.fail(format!("{prop}:write-panic:{}", panic_site(p)), format!("{label} (op {}) panicked: {p}", st.op));
			return None;
		}
		if let Err(e) = &st.res {
			if e.starts_with("HARNESS") || e.starts_with("PRE-SERIALIZE") {
				out.fail(format!("harness:{prop}:{label}"), e.clone());
			} else {
				out.fail(
					format!("{prop}:write-failed:{}:{label}", spec.codec.name()),
					format!("op {} ({label}) returned Err: {e}", st.op),
				);
			}
			return None;
		}
	}
	Some((sink.accepted(), run.model))
}

impl Prop for C05 {
	type Scn = Scn;
	fn id(&self) -> &'static str {
		"C05"
	}
	fn level(&self) -> &'static str {
		"exploration"
	}
	fn rule(&self) -> &'static str {
		"A scenario is a writer history over {serialize(value, presentation), serialize(blob), push_serialized(values pre-serialised by the real to_datum | by the reference encoder), finish_block} ended by into_inner | drop, \
		 with per-run knobs codec x level x approx_block_size (0, 1, tiny, exact cumulative datum sizes +-1, 4 KiB, 64 KiB; blob scenarios put uncompressed block lengths on 8192k+-3 and compressed lengths across 32 KiB), \
		 then the file is read back through the slice reader and several stream readers (Cursor, SimSource with Fixed(1), Fixed(k), cyclic plans, cuts inside block headers / compressed trailers / sync markers, BufReader capacities incl. 8191..8193). \
		 An evaluation is one complete read of one file by one reader kind. Every scenario is non-trivial (a file is written and read under a refill schedule); distinct = distinct (codec, level class, block count, per-block (count bucket, uncompressed size class incl. 'within 3 of a multiple of 8192', compressed > 32 KiB), approx_block_size class, end action, reader kind class). One file in eight is preceded by one or two EARLIER writers on the same SerializerConfig (other codec, level, block size; one in five of them fails to build because the sink refuses the header, one in five because its user metadata cannot be serialized, one in five meets a sink that refuses its first block and — in the lane built without debug assertions — stays broken while that writer is dropped). One scenario in 250 is a LONG history (Op::Many): 250-1200 small values with a block per value / every few values / every few hundred, or 65 530-135 000 tiny values in ONE block, with string / bytes sizes following a pattern over the history (constant, growing, shrinking, sawtooth, small with a large one every 16 / 64 / 255 / 256 / 257 / 1024 values, 1-2 KiB incompressible each) and every k-th value pushed pre-serialized. One scenario in thirty uses a deliberately large-scale schema / value (counts, indices and lengths of two and three bytes, 62-300 fields / branches / symbols, lists 8-15 deep, fields around 8 KiB and 64 KiB); values are presented through the canonical serde calls or (per-node coin) through the other calls the crate documents as equivalent; every file of records is read once more through a target that leaves some fields to deserialize_ignored_any (what is kept must be what was written); the iterator adaptors are held to the size_hint contract."
	}
	fn assumptions(&self) -> Vec<String> {
		vec![
			"values are presented in one canonical serde presentation per node kind plus the presentation knobs of `Presented` (decimals as strings)".into(),
			"sink accepts everything (sink faults are C16's), no caller failure (C15's)".into(),
			"xz presets 7-9 are exercised rarely (encoder memory ~0.2-0.7 GiB per block)".into(),
		]
	}
	fn expected_probes(&self) -> Vec<&'static str> {
		vec!["long_history", "long_history_above_65535_values", "approx_block_size_zero", "compressed_block_gt_32k_bzip2", "compressed_block_gt_32k_deflate", "compressed_block_gt_32k_snappy", "compressed_block_gt_32k_xz", "compressed_block_gt_32k_zstandard", "decompressed_size_multiple_of_8192", "push_of_zero_objects", "refill_boundary_inside_block_header_trailer_or_sync", "written_through_write_all"]
	}
	fn budget(&self, tier: Tier) -> (u64, u64) {
		match tier {
			Tier::Quick => (120_000, 90),
			Tier::Thorough => (2_000_000, 1200),
		}
	}

	fn gen(&self, rng: &mut Rng, _tier: Tier, _run: u64) -> Scn {
		let profile = SpecProfile {
			poison: false,
			max_ops: 12,
			heavy_codecs: true,
			big_blobs: true,
			min_width_one: false,
			push_ops: true,
			scale: 2,
		};
		if rng.chance(1, 12_000) {
			// a block of more than 8 MiB (one value): beyond the window sizes decoders accept by default for the highest
			// compression levels, beyond every internal buffer. Read back whole (slice) or through a std-like cursor.
			let codec = match rng.below(8) {
				0 => ref_container::Codec::Null,
				1 => ref_container::Codec::Deflate(9),
				2 => ref_container::Codec::Snappy,
				3 => ref_container::Codec::Bzip2(9),
				4 => ref_container::Codec::Xz(6),
				_ => ref_container::Codec::Zstd(*rng.pick(&[19u8, 20, 21, 22])),
			};
			let spec = FileSpec {
				schema: crate::ast::Ty::Bytes,
				codec,
				approx_block_size: *rng.pick(&[0u32, 64 * 1024, u32::MAX]),
				sync: container::gen_sync(rng),
				user_meta: vec![],
				ops: vec![
					Op::Blob { len: rng.below(100) as u32, seed: rng.next_u64(), compressible: true },
					Op::Blob { len: 8 * 1024 * 1024 + 1 + rng.below(300_000) as u32, seed: rng.next_u64(), compressible: true },
					Op::Blob { len: rng.below(100) as u32, seed: rng.next_u64(), compressible: false },
				],
				end: container::End::IntoInner,
				owned_config: false,
				via_write_all: false,
				prelude: vec![],
			};
			return Scn { spec, rk_seed: rng.next_u64(), n_kinds: 1, only_kind: Some(if rng.bool() { RKind::Slice } else { RKind::Cursor }) };
		}
		if rng.chance(1, 250) {
			// a LONG history: hundreds of blocks, or more than 65 535 objects in one block
			let spec = container::gen_long_spec(rng, &profile, 140_000);
			return Scn { spec, rk_seed: rng.next_u64(), n_kinds: 2, only_kind: None };
		}
		let mut spec = container::gen_filespec(rng, &profile);
		container::maybe_via_write_all(rng, &mut spec);
		Scn {
			spec,
			rk_seed: rng.next_u64(),
			n_kinds: 3 + rng.usize(4),
			only_kind: None,
		}
	}

	fn exec(&self, scn: &Scn) -> Outcome {
		let mut out = Outcome::default();
		crate::capture::HUMAN_READABLE.with(|h| h.set((None, None)));
		container::count_scale(&scn.spec, &mut out);
		let expanded = scn.spec.expanded();
		let spec = &*expanded;
		let env = Env::build(&spec.schema);
		let Some((file, model)) = write_clean(spec, "C05", &mut out) else {
			return out;
		};
		let parsed = ref_container::parse(&file).ok();
		let kinds = match &scn.only_kind {
			Some(k) => vec![k.clone()],
			None => container::gen_reader_kinds(&mut Rng::from_seed(scn.rk_seed), file.len(), parsed.as_ref(), scn.n_kinds),
		};
		// layout signature
		let mut layout = Fnv::new();
		layout.u64(spec.codec.idx()).u64(match spec.codec.level() {
			0 => 0,
			1..=3 => 1,
			4..=9 => 2,
			_ => 3,
		});
		layout.u64(match spec.approx_block_size {
			0 => 0,
			1 => 1,
			2..=64 => 2,
			65..=8192 => 3,
			_ => 4,
		});
		layout.u64(spec.end as u64);
		if let Some(p) = &parsed {
			layout.u64(p.blocks.len().min(6) as u64);
			for b in p.blocks.iter().take(4) {
				layout.u64(b.count.min(5)).u64(size_class(b.data.len())).u64((b.size > 32768) as u64);
				if b.size > 32768 {
					out.count(
						match spec.codec {
							ref_container::Codec::Null => "compressed_block_gt_32k_null",
							ref_container::Codec::Deflate(_) => "compressed_block_gt_32k_deflate",
							ref_container::Codec::Bzip2(_) => "compressed_block_gt_32k_bzip2",
							ref_container::Codec::Snappy => "compressed_block_gt_32k_snappy",
							ref_container::Codec::Xz(_) => "compressed_block_gt_32k_xz",
							ref_container::Codec::Zstd(_) => "compressed_block_gt_32k_zstandard",
						},
						1,
					);
				}
				if b.data.len() >= 8192 && b.data.len() % 8192 == 0 {
					out.count("decompressed_size_multiple_of_8192", 1);
				}
				if b.count == 0 {
					out.count("block_with_zero_objects_emitted", 1);
				}
			}
		}
		if spec.approx_block_size == 0 {
			out.count("approx_block_size_zero", 1);
		}
		if spec.ops.iter().any(|o| matches!(o, Op::PushCrate { vals } | Op::PushRef { vals, .. } if vals.is_empty())) {
			out.count("push_of_zero_objects", 1);
		}
		let mut digest = Fnv::new();
		if spec.via_write_all {
			out.count("written_through_write_all", 1);
			digest.u64(file.len() as u64);
		} else {
			digest.bytes(&file);
		}
		let budget = container::call_budget_for(model.len(), model.len() + spec.ops.len() + 2);
		for kind in &kinds {
			let r = container::read_file(&file, &env, &spec.schema, kind, &[], budget);
			out.evals += 1;
			if let Some(st) = &r.source {
				out.steps += st.calls;
				digest.u64(st.digest);
				if !st.contract_violations.is_empty() {
					out.fail("C05:read:bufread-contract", format!("{} with {}", st.contract_violations[0], kind.label()));
					break;
				}
			}
			digest.str(&r.shape());
			let mut sig = layout;
			sig.u64(kind.class());
			out.sig(sig);
			if matches!(kind, RKind::Sim(crate::world::ReaderKind::Direct(crate::simio::RefillPlan::Cuts(_)))) {
				out.count("refill_boundary_inside_block_header_trailer_or_sync", 1);
			}
			let stream = if *kind == RKind::Slice { "slice" } else { "stream" };
			if let Some(p) = &r.panicked {
				out.fail(format!("C05:read-panic:{}", panic_site(p)), format!("{}: {p}", kind.label()));
				break;
			}
			if let Some(e) = &r.ctor_err {
				out.fail(format!("C05:read-error:{}:{stream}:constructor", spec.codec.name()), format!("{}: {e}", kind.label()));
				break;
			}
			if let Some(Item::Err { msg, .. }) = r.items.iter().find(|i| matches!(i, Item::Err { .. })) {
				out.fail(
					format!("C05:read-error:{}:{stream}", spec.codec.name()),
					format!("{}: shape {} (expected {} values): {msg}", kind.label(), r.shape(), model.len()),
				);
				break;
			}
			if r.call_budget_exhausted {
				out.fail("C05:read:no-end-of-stream", format!("{}: shape {}", kind.label(), r.shape()));
				break;
			}
			let got = r.values();
			if got.len() != model.len() || got.iter().zip(&model).any(|(a, b)| *a != b) {
				let first = got.iter().zip(&model).position(|(a, b)| *a != b);
				out.fail(
					format!("C05:read-mismatch:{}:{stream}", spec.codec.name()),
					format!(
						"{}: read {} values, wrote {}; first difference at {:?}: got {:?} expected {:?}",
						kind.label(),
						got.len(),
						model.len(),
						first,
						first.map(|i| got[i]),
						first.map(|i| &model[i])
					),
				);
				break;
			}
			// values, then Ok(None) three times
			let tail: Vec<&Item> = r.items.iter().skip(model.len()).collect();
			if tail.len() != 3 || tail.iter().any(|i| **i != Item::None) {
				out.fail("C05:read:end-of-stream-not-stable", format!("{}: shape {}", kind.label(), r.shape()));
				break;
			}
			let mut um = spec.user_meta.clone();
			um.sort();
			if r.meta.is_some() && r.meta.as_ref() != Some(&um) {
				out.fail("C05:read:user-metadata-differs", format!("{}: got {:?} expected {:?}", kind.label(), r.meta, um));
				break;
			}
		}
		// once more through a caller whose types do not declare every record field (the undeclared ones are skipped by
		// the crate: skipping is decoding too): what is kept must be what was written, then end of stream
		if !out.failed() && matches!(env.resolve(&spec.schema), crate::ast::Ty::Record { .. }) {
			for kind in kinds.iter().filter(|k| matches!(k, RKind::Slice | RKind::Cursor | RKind::Sim(_))).take(3) {
				container::READ_MASK.with(|m| m.set(Some(scn.rk_seed | 1)));
				let r = container::read_file(&file, &env, &spec.schema, kind, &[], budget);
				container::READ_MASK.with(|m| m.set(None));
				out.evals += 1;
				out.count("read_with_partly_ignoring_target", 1);
				let stream = if *kind == RKind::Slice { "slice" } else { "stream" };
				if let Some(p) = &r.panicked {
					out.fail(format!("C05:read-panic:partly-ignoring-target:{}", panic_site(p)), format!("{}: {p}", kind.label()));
					break;
				}
				let got = r.values();
				let clean = r.ctor_err.is_none() && !r.items.iter().any(|i| matches!(i, Item::Err { .. })) && !r.call_budget_exhausted;
				if !clean || got.len() != model.len() || got.iter().zip(&model).any(|(a, b)| !crate::val::eq_modulo_mask(a, b)) {
					out.fail(
						format!("C05:read-mismatch:partly-ignoring-target:{}:{stream}", spec.codec.name()),
						format!("{}: shape {} (expected {} values); first difference at {:?}", kind.label(), r.shape(), model.len(), got.iter().zip(&model).position(|(a, b)| !crate::val::eq_modulo_mask(a, b))),
					);
					break;
				}
			}
		}
		// the writer's serializer and the reader's deserializer describe ONE format: a caller's type that chooses its
		// representation by is_human_readable() (std's IpAddr / SocketAddr, uuid, chrono, url ...) must be told the same
		// thing on both sides, or what it writes is not what it reads
		if !out.failed() {
			if let (Some(ser), Some(de)) = crate::capture::HUMAN_READABLE.with(|h| h.get()) {
				out.count("is_human_readable_compared", 1);
				if ser != de {
					out.fail("C05:serializer-and-deserializer-disagree-on-is_human_readable", format!("the serializer says {ser}, the deserializer says {de}"));
				}
			}
		}
		out.digest = digest.get();
		out
	}

	fn shrink(&self, scn: &Scn) -> Vec<Scn> {
		let mut c = vec![];
		if scn.only_kind.is_none() {
			// resolve the reader kinds once so that a single one can be kept
			let mut o = Outcome::default();
			if let Some((file, _)) = write_clean(&scn.spec.expanded(), "C05", &mut o) {
				let parsed = ref_container::parse(&file).ok();
				for k in container::gen_reader_kinds(&mut Rng::from_seed(scn.rk_seed), file.len(), parsed.as_ref(), scn.n_kinds) {
					let mut s = scn.clone();
					s.only_kind = Some(k);
					c.push(s);
				}
			}
		}
		for spec in shrink_spec(&scn.spec) {
			let mut s = scn.clone();
			s.spec = spec;
			c.push(s);
		}
		c
	}
}

pub fn shrink_spec(spec: &FileSpec) -> Vec<FileSpec> {
	let mut c = vec![];
	// drop ops
	if spec.ops.len() > 1 {
		let half = spec.ops.len() / 2;
		let mut s = spec.clone();
		s.ops.truncate(half);
		c.push(s);
		let mut s = spec.clone();
		s.ops.drain(..half);
		c.push(s);
	}
	for i in 0..spec.ops.len() {
		if spec.ops.len() > 1 {
			let mut s = spec.clone();
			s.ops.remove(i);
			c.push(s);
		}
	}
	// simplify ops
	for (i, op) in spec.ops.iter().enumerate() {
		match op {
			Op::Serialize { val, pres, poison } => {
				if *pres != PresCfg::plain() {
					let mut s = spec.clone();
					s.ops[i] = Op::Serialize {
						val: val.clone(),
						pres: PresCfg::plain(),
						poison: *poison,
					};
					c.push(s);
				}
			}
			Op::SerializeAll { items } if items.len() > 1 => {
				for j in 0..items.len() {
					let mut s = spec.clone();
					let mut it = items.clone();
					it.remove(j);
					s.ops[i] = Op::SerializeAll { items: it };
					c.push(s);
				}
			}
			Op::Many { seed, n, finish_every, push_every, poison_every, pattern } => {
				for nn in [n / 2, n.saturating_sub(n / 8 + 1), n.saturating_sub(1)] {
					if nn < *n && nn > 0 {
						let mut s = spec.clone();
						s.ops[i] = Op::Many { seed: *seed, n: nn, finish_every: *finish_every, push_every: *push_every, poison_every: *poison_every, pattern: *pattern };
						c.push(s);
					}
				}
				if *push_every > 0 {
					let mut s = spec.clone();
					s.ops[i] = Op::Many { seed: *seed, n: *n, finish_every: *finish_every, push_every: 0, poison_every: *poison_every, pattern: *pattern };
					c.push(s);
				}
				if *poison_every > 0 {
					let mut s = spec.clone();
					s.ops[i] = Op::Many { seed: *seed, n: *n, finish_every: *finish_every, push_every: *push_every, poison_every: 0, pattern: *pattern };
					c.push(s);
				}
			}
			Op::Blob { len, seed, compressible } => {
				for nl in [len / 2, len.saturating_sub(1000), len.saturating_sub(1)] {
					if nl < *len {
						let mut s = spec.clone();
						s.ops[i] = Op::Blob {
							len: nl,
							seed: *seed,
							compressible: *compressible,
						};
						c.push(s);
					}
				}
			}
			Op::PushCrate { vals } | Op::PushRef { vals, .. } if vals.len() > 1 => {
				let mut s = spec.clone();
				let v = vec![vals[0].clone()];
				s.ops[i] = match op {
					Op::PushCrate { .. } => Op::PushCrate { vals: v },
					Op::PushRef { layout, .. } => Op::PushRef { vals: v, layout: *layout },
					_ => unreachable!(),
				};
				c.push(s);
			}
			_ => {}
		}
	}
	if !spec.prelude.is_empty() {
		let mut s = spec.clone();
		s.prelude.clear();
		c.push(s);
		for i in 0..spec.prelude.len() {
			if spec.prelude.len() > 1 {
				let mut s = spec.clone();
				s.prelude.remove(i);
				c.push(s);
			}
		}
	}
	if !spec.user_meta.is_empty() {
		let mut s = spec.clone();
		s.user_meta.clear();
		c.push(s);
	}
	if spec.approx_block_size != 64 * 1024 {
		let mut s = spec.clone();
		s.approx_block_size = 64 * 1024;
		c.push(s);
	}
	if spec.codec.level() != 0 {
		let mut s = spec.clone();
		s.codec = ref_container::Codec::from_name(spec.codec.name()).unwrap();
		c.push(s);
	}
	c
}
