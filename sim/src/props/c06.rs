//! C06 — container files follow the Avro file layout and interoperate with other tools.
//! Refinement against an independent reference container model, both directions.

use crate::ast::{self, Env, Ty};
use crate::container::{self, FileSpec, Item, RKind, SpecProfile};
use crate::prng::{Fnv, Rng};
use crate::props::c05::{shrink_spec, write_clean};
use crate::ref_container::{self, Codec, WriteOpts};
use crate::ref_datum::Layout;
use crate::runner::{panic_site, Outcome, Prop, Tier};
use crate::val::{self, Val, ValCfg};
use serde_derive::{Deserialize, Serialize};

#[derive(Clone, Debug, Serialize, Deserialize)]
pub struct BSpec {
	pub schema: Ty,
	pub codec: Codec,
	pub sync: [u8; 16],
	pub user_meta: Vec<(String, Vec<u8>)>,
	pub values: Vec<Val>,
	pub opts: WriteOpts,
	/// a LONG file: (seed, n, size pattern) — `values` is left empty and derived by `expanded` (`val::gen_long_vals`)
	#[serde(default)]
	pub many: Option<(u64, u32, u8)>,
}

impl BSpec {
	pub fn expanded(&self) -> std::borrow::Cow<'_, BSpec> {
		match self.many {
			None => std::borrow::Cow::Borrowed(self),
			Some((seed, n, pattern)) => {
				let env = Env::build(&self.schema);
				std::borrow::Cow::Owned(BSpec { values: val::gen_long_vals(seed, &env, &self.schema, n, pattern), many: None, ..self.clone() })
			}
		}
	}
}

/// A LONG reference-written file: hundreds of blocks, more than 65 535 objects in one block, long runs of blocks that
/// hold no objects at all (legal; what some writers leave behind after a flush with nothing pending)
pub fn gen_long_bspec(rng: &mut Rng, min_width_one: bool, max_n: u32) -> BSpec {
	let huge_block = max_n > 70_000 && rng.chance(1, 5);
	let schema = if huge_block {
		match rng.below(4) {
			0 if !min_width_one => Ty::Null,
			1 => Ty::Boolean,
			2 => Ty::Long,
			_ => Ty::Int,
		}
	} else {
		match rng.below(8) {
			0 => Ty::Int,
			1 => Ty::String,
			2 => Ty::Bytes,
			3 => Ty::Record { name: 0, fields: vec![(0, Ty::Int), (1, Ty::String)] },
			4 => Ty::Union(vec![Ty::Null, Ty::String]),
			5 => Ty::Array(Box::new(Ty::Int)),
			6 if !min_width_one => Ty::Record { name: 1, fields: vec![] },
			_ => Ty::Long,
		}
	};
	let n = if huge_block {
		let span = *rng.pick(&[40u64, 3_000, 70_000]);
		65_530 + rng.below(span) as u32
	} else {
		match rng.below(4) {
			0 => rng.below(3) as u32,
			1 => 250 + rng.below(20) as u32,
			2 => 257 + rng.below(300) as u32,
			_ => 300 + rng.below(900) as u32,
		}
		.min(max_n)
	};
	let pattern = if huge_block { 0 } else { rng.below(7) as u8 };
	let n = if matches!(pattern, 2 | 3 | 6) { n.min(400) } else { n };
	let codec = match container::gen_codec(rng, false) {
		Codec::Zstd(l) if l > 9 => Codec::Zstd(1 + l % 9),
		c => c,
	};
	let opts = WriteOpts {
		seed: rng.next_u64(),
		partition: if huge_block {
			vec![]
		} else {
			match rng.below(3) {
				0 => vec![1],
				1 => vec![1 + rng.usize(3), 1, 2 + rng.usize(5)],
				_ => vec![100 + rng.usize(200)],
			}
		},
		meta_order_seed: 0,
		omit_codec_key: false,
		meta_split: false,
		meta_negative_count: false,
		datum_layout: Layout { seed: rng.next_u64(), split_blocks: rng.bool(), negative_counts: rng.bool(), pad_varints: 0 },
		empty_blocks: false,
		empty_run: if huge_block { 0 } else { *rng.pick(&[0u32, 0, 1, 3, 300, 3_000, 20_000]) },
	};
	BSpec { schema, codec, sync: container::gen_sync(rng), user_meta: vec![], values: vec![], opts, many: Some((rng.next_u64(), n, pattern)) }
}

#[derive(Clone, Debug, Serialize, Deserialize)]
pub enum Dir {
	/// the crate writes, the reference model reads
	A(FileSpec),
	/// the reference model writes, the crate reads
	B(BSpec),
}

#[derive(Clone, Debug, Serialize, Deserialize)]
pub struct Scn {
	pub dir: Dir,
	pub rk_seed: u64,
	pub only_kind: Option<RKind>,
	/// also judge with apache-avro 0.17 (eligible schemas only)
	#[serde(default)]
	pub apache: bool,
}

pub struct C06;

fn err_stage(e: &str) -> &'static str {
	if e.contains("magic") {
		"magic"
	} else if e.contains("metadata") || e.contains("avro.schema") || e.contains("avro.codec") || e.contains("codec name") {
		"metadata"
	} else if e.contains("sync") {
		"sync"
	} else if e.contains("count") {
		"block-count"
	} else if e.contains("size") {
		"block-size"
	} else if e.contains("deflate") || e.contains("bzip2") || e.contains("snappy") || e.contains("xz") || e.contains("zstd") {
		"codec-framing"
	} else {
		"other"
	}
}

pub fn check_direction_a(spec: &FileSpec, file: &[u8], model: &[Val], prop: &str, out: &mut Outcome) {
	let env = Env::build(&spec.schema);
	let codec = spec.codec.name();
	let parsed = match ref_container::parse(file) {
		Ok(p) => p,
		Err(e) => {
			out.fail(format!("{prop}:A:ref-parse-failed:{codec}:{}", err_stage(&e)), e);
			return;
		}
	};
	if !parsed.codec_key_present {
		out.fail(format!("{prop}:A:no-codec-key"), "the writer did not emit avro.codec");
		return;
	}
	if parsed.codec.name() != codec {
		out.fail(format!("{prop}:A:codec-name"), format!("file says {:?}, writer was configured with {codec:?}", parsed.codec.name()));
		return;
	}
	if !spec.via_write_all && parsed.sync != spec.sync {
		out.fail(format!("{prop}:A:header-sync"), "header sync marker is not the configured one");
		return;
	}
	// schema JSON: equal to what the crate reports, and denotes the sim's AST
	match world_schema_json(&spec.schema) {
		Ok(js) => {
			if js != parsed.schema_json {
				out.fail(format!("{prop}:A:schema-json-differs-from-Schema::json"), format!("{} vs {}", parsed.schema_json, js));
				return;
			}
		}
		Err(e) => {
			out.fail(format!("harness:{prop}:schema"), e);
			return;
		}
	}
	let a: Result<serde_json::Value, _> = serde_json::from_str(&parsed.schema_json);
	let b: serde_json::Value = serde_json::from_str(&ast::to_json(&spec.schema)).unwrap();
	if a.ok() != Some(b) {
		out.fail(format!("{prop}:A:schema-json-not-the-schema"), parsed.schema_json.clone());
		return;
	}
	let mut um = spec.user_meta.clone();
	um.sort();
	let mut got = parsed.user_meta();
	got.sort();
	if um != got {
		out.fail(format!("{prop}:A:user-metadata"), format!("file has {got:?}, writer was given {um:?}"));
		return;
	}
	match parsed.decode_values(&env, &spec.schema) {
		Ok(vals) => {
			if vals != model {
				out.fail(
					format!("{prop}:A:values-differ:{codec}"),
					format!("reference reader decoded {} values, {} were written", vals.len(), model.len()),
				);
			}
		}
		Err(e) => out.fail(format!("{prop}:A:ref-decode-failed:{codec}"), e),
	}
}

fn world_schema_json(ty: &Ty) -> Result<String, String> {
	crate::world::parse_schema(ty).map(|s| s.json().to_owned())
}

impl Prop for C06 {
	type Scn = Scn;
	fn id(&self) -> &'static str {
		"C06"
	}
	fn level(&self) -> &'static str {
		"exploration"
	}
	fn rule(&self) -> &'static str {
		"Direction A: a writer history (as in C05, with user metadata incl. empty and non-UTF-8 values) runs through the real writer; the reference parser (written from the specification; raw deflate, bzip2, xz, zstd frame, snappy+big-endian CRC-32 of uncompressed data through the codec libraries' own APIs; reference datum decoder) must accept the file and recover magic, avro.schema (= Schema::json(), and JSON-equal to the simulator's schema), avro.codec, user metadata, sync, per-block counts and exactly the written values. \
		 Direction B: the reference writer produces a file under PRNG-chosen free choices (block partition incl. 1 value per block, metadata key order, metadata map split in several blocks / negative-count block, array/map values split into blocks with negative counts, absent avro.codec for null) and the real reader (slice and stream kinds) must yield the values and user metadata. \
		 An evaluation is one reference parse or one complete crate read. Distinct = distinct (direction, codec, block count bucket, writer free-choice bits, reader kind class). One scenario in 150 is a LONG file (direction A: as in C05; direction B: 250-1200 values one or a few per block, or more than 65 535 objects in one block, and runs of 1 to 20 000 consecutive blocks that hold no objects). Schema texts carry attributes the crate must preserve (non-ASCII, escapes, a string ending in an escaped backslash, numbers in other notations, unknown logical types, primitives in long form); user metadata reaches 340 entries, 70 000-byte values and 8 200-byte keys; one scenario in thirty is deliberately large-scale (see C05)."
	}
	fn assumptions(&self) -> Vec<String> {
		vec![
			"the reference model is trusted as the judge of the specification; it shares only the compression libraries' high-level APIs with the crate".into(),
			"blocks holding zero objects are not generated in direction B (unusual; no known writer emits them)".into(),
			"apache-avro 0.17 is the second implementation on the schema subset with an obvious Value mapping (no logical types, no zero-width values, no maps in the files it writes); a disagreement with it is reported like a disagreement with the reference model".into(),
		]
	}
	fn expected_probes(&self) -> Vec<&'static str> {
		vec!["long_history", "direction_b_run_of_blocks_without_objects", "direction_a_files", "direction_b_files", "direction_b_absent_codec_key", "direction_b_metadata_negative_count_block", "direction_b_metadata_split", "apache_avro_read_crate_file", "apache_avro_wrote_file_for_crate"]
	}
	fn budget(&self, tier: Tier) -> (u64, u64) {
		match tier {
			Tier::Quick => (70_000, 90),
			Tier::Thorough => (2_000_000, 1200),
		}
	}

	fn gen(&self, rng: &mut Rng, _tier: Tier, run: u64) -> Scn {
		let profile = SpecProfile {
			poison: false,
			max_ops: 8,
			heavy_codecs: true,
			big_blobs: true,
			min_width_one: false,
			push_ops: true,
			scale: 2,
		};
		if rng.chance(1, 150) {
			// LONG files, both directions
			let dir = if run % 2 == 0 { Dir::A(container::gen_long_spec(rng, &profile, 140_000)) } else { Dir::B(gen_long_bspec(rng, false, 140_000)) };
			return Scn { dir, rk_seed: rng.next_u64(), only_kind: None, apache: true };
		}
		if run % 2 == 0 {
			return Scn {
				dir: Dir::A({
					let mut spec = container::gen_filespec(rng, &profile);
					container::maybe_via_write_all(rng, &mut spec);
					spec
				}),
				rk_seed: rng.next_u64(),
				only_kind: None,
				apache: true,
			};
		}
		let (schema, scale) = container::gen_schema_maybe_scale(rng, &profile);
		let env = Env::build(&schema);
		let vcfg = ValCfg {
			max_len: 1 + rng.usize(8),
			max_depth: 4,
			budget: 6 + rng.below(40) as i32,
			// reference-written blocks above the decoders' and the BufReader's buffer sizes
			str_boost: if rng.chance(1, 30) { *rng.pick(&[9000usize, 40000]) } else { 0 }, scale: None }.with_scale(scale);
		let n = if scale.is_some() { rng.usize(4) } else { rng.usize(10) };
		let values: Vec<Val> = (0..n).map(|_| val::gen_val(rng, &env, &schema, &vcfg)).collect();
		let codec = container::gen_codec(rng, true);
		let opts = WriteOpts {
			seed: rng.next_u64(),
			partition: match rng.below(4) {
				0 => vec![],
				1 => vec![1],
				_ => (0..1 + rng.usize(3)).map(|_| 1 + rng.usize(4)).collect(),
			},
			meta_order_seed: if rng.bool() { 0 } else { rng.next_u64() | 1 },
			omit_codec_key: codec == Codec::Null && rng.chance(1, 2),
			meta_split: rng.chance(1, 3),
			meta_negative_count: rng.chance(1, 3),
			datum_layout: Layout {
				seed: rng.next_u64(),
				split_blocks: rng.bool(),
				negative_counts: rng.bool(),
				pad_varints: 0,
			},
			empty_blocks: false,
			empty_run: 0,
		};
		Scn {
			dir: Dir::B(BSpec {
				schema,
				codec,
				sync: container::gen_sync(rng),
				user_meta: container::gen_user_meta(rng),
				values,
				opts,
				many: None,
			}),
			rk_seed: rng.next_u64(),
			only_kind: None,
			apache: true,
		}
	}

	fn exec(&self, scn: &Scn) -> Outcome {
		let mut out = Outcome::default();
		match &scn.dir {
			Dir::A(spec) => {
				container::count_scale(spec, &mut out);
				let expanded = spec.expanded();
				let spec = &*expanded;
				let Some((file, model)) = write_clean(spec, "C06", &mut out) else {
					return out;
				};
				out.evals += 1;
				check_direction_a(spec, &file, &model, "C06", &mut out);
				let env_a = Env::build(&spec.schema);
				if scn.apache && !out.failed() && crate::apache::eligible(&env_a, &spec.schema) {
					out.evals += 1;
					out.count("apache_avro_read_crate_file", 1);
					match crate::apache::read_file(&env_a, &spec.schema, &file) {
						Ok(r) => {
							let want: Vec<Val> = model.iter().map(crate::apache::normalise).collect();
							if r.values != want {
								out.fail(
									format!("C06:A:apache-avro-reads-other-values:{}", spec.codec.name()),
									format!("apache-avro read {} values, {} were written; first difference at {:?}", r.values.len(), want.len(), r.values.iter().zip(&want).position(|(a, b)| a != b)),
								);
							} else {
								let mut um = spec.user_meta.clone();
								um.sort();
								if r.user_meta != um {
									out.fail("C06:A:apache-avro-reads-other-user-metadata", format!("{:?} vs {:?}", r.user_meta, um));
								}
							}
						}
						Err(e) => out.fail(format!("C06:A:apache-avro-cannot-read:{}", spec.codec.name()), e),
					}
				}
				let mut sig = Fnv::new();
				sig.str("A").u64(spec.codec.idx()).u64(spec.user_meta.len().min(3) as u64);
				if let Ok(p) = ref_container::parse(&file) {
					sig.u64(p.blocks.len().min(5) as u64);
					for b in p.blocks.iter().take(3) {
						sig.u64(b.count.min(4)).u64(crate::props::c05::size_class(b.data.len()));
					}
				}
				out.sig(sig);
				out.count("direction_a_files", 1);
				let mut d = Fnv::new();
				if spec.via_write_all {
					d.u64(file.len() as u64);
				} else {
					d.bytes(&file);
				}
				out.digest = d.get();
			}
			Dir::B(b) => {
				if b.many.is_some() {
					out.count("long_history", 1);
				}
				if b.opts.empty_run > 0 {
					out.count("direction_b_run_of_blocks_without_objects", 1);
				}
				let expanded = b.expanded();
				let b = &*expanded;
				let env = Env::build(&b.schema);
				let json = ast::to_json(&b.schema);
				let file = match ref_container::write(&env, &b.schema, &json, b.codec, b.sync, &b.user_meta, &b.values, &b.opts) {
					Ok(f) => f,
					Err(e) => {
						out.fail("harness:C06:ref-write", e);
						return out;
					}
				};
				// the reference writer's output must satisfy the reference parser (harness self-check)
				match ref_container::parse(&file).and_then(|p| p.decode_values(&env, &b.schema)) {
					Ok(v) if v == b.values => {}
					other => {
						out.fail("harness:C06:ref-write-vs-ref-parse", format!("{other:?}"));
						return out;
					}
				}
				out.count("direction_b_files", 1);
				if b.opts.omit_codec_key && b.codec == Codec::Null {
					out.count("direction_b_absent_codec_key", 1);
				}
				if b.opts.meta_negative_count {
					out.count("direction_b_metadata_negative_count_block", 1);
				}
				if b.opts.meta_split {
					out.count("direction_b_metadata_split", 1);
				}
				let parsed = ref_container::parse(&file).ok();
				let kinds = match &scn.only_kind {
					Some(k) => vec![k.clone()],
					None => container::gen_reader_kinds(&mut Rng::from_seed(scn.rk_seed), file.len(), parsed.as_ref(), 3),
				};
				let mut d = Fnv::new();
				d.bytes(&file);
				let budget = container::call_budget_for(b.values.len(), b.values.len() + 4);
				let free = (b.opts.omit_codec_key as u64) | (b.opts.meta_split as u64) << 1 | (b.opts.meta_negative_count as u64) << 2 | ((b.opts.meta_order_seed != 0) as u64) << 3
					| (b.opts.datum_layout.split_blocks as u64) << 4
					| (b.opts.datum_layout.negative_counts as u64) << 5
					| (b.opts.partition.is_empty() as u64) << 6;
				for kind in &kinds {
					let r = container::read_file(&file, &env, &b.schema, kind, &[], budget);
					out.evals += 1;
					if let Some(st) = &r.source {
						out.steps += st.calls;
						d.u64(st.digest);
					}
					d.str(&r.shape());
					let mut sig = Fnv::new();
					sig.str("B").u64(b.codec.idx()).u64(free).u64(kind.class()).u64(parsed.as_ref().map_or(0, |p| p.blocks.len().min(5)) as u64);
					out.sig(sig);
					let codec = b.codec.name();
					let keyed = if b.opts.omit_codec_key && b.codec == Codec::Null { "codec-key-absent" } else { "codec-key-present" };
					if let Some(p) = &r.panicked {
						out.fail(format!("C06:B:read-panic:{}", panic_site(p)), format!("{}: {p}", kind.label()));
						break;
					}
					if let Some(e) = &r.ctor_err {
						out.fail(format!("C06:B:constructor-error:{codec}:{keyed}"), format!("{}: {e}", kind.label()));
						break;
					}
					if let Some(Item::Err { msg, .. }) = r.items.iter().find(|i| matches!(i, Item::Err { .. })) {
						out.fail(format!("C06:B:read-error:{codec}"), format!("{}: shape {}: {msg}", kind.label(), r.shape()));
						break;
					}
					let got = r.values();
					if got.len() != b.values.len() || got.iter().zip(&b.values).any(|(x, y)| *x != y) {
						out.fail(
							format!("C06:B:values-differ:{codec}"),
							format!("{}: read {} values, reference wrote {}", kind.label(), got.len(), b.values.len()),
						);
						break;
					}
					if !r.ended_cleanly() {
						out.fail(format!("C06:B:no-clean-end:{codec}"), format!("{}: shape {}", kind.label(), r.shape()));
						break;
					}
					let mut um = b.user_meta.clone();
					um.sort();
					if r.meta.is_some() && r.meta.as_ref() != Some(&um) {
						out.fail("C06:B:user-metadata", format!("{}: got {:?} expected {:?}", kind.label(), r.meta, um));
						break;
					}
				}
				if scn.apache && !out.failed() && !b.values.is_empty() && crate::apache::eligible(&env, &b.schema) && !crate::apache::has_map(&env, &b.schema, 0) {
					let flush_every = b.opts.partition.first().copied().unwrap_or(0);
					match crate::apache::write_file(&env, &b.schema, &json, b.codec, &b.values, flush_every, &b.user_meta) {
						Err(e) => out.fail("harness:C06:apache-write", e),
						Ok(afile) => {
							out.count("apache_avro_wrote_file_for_crate", 1);
							// (the sync marker apache-avro draws is random: the file's bytes stay out of the digest)
							let kind = scn.only_kind.clone().unwrap_or(if scn.rk_seed % 2 == 0 { RKind::Slice } else { RKind::Sim(crate::world::ReaderKind::Direct(crate::simio::RefillPlan::Fixed(1 + (scn.rk_seed % 13) as usize))) });
							let r = container::read_file(&afile, &env, &b.schema, &kind, &[], budget);
							out.evals += 1;
							let codec = b.codec.name();
							if let Some(p) = &r.panicked {
								out.fail(format!("C06:B:read-panic:{}", panic_site(p)), format!("apache-avro-written file, {}: {p}", kind.label()));
							} else if let Some(e) = &r.ctor_err {
								out.fail(format!("C06:B:apache-avro-file:constructor-error:{codec}"), format!("{}: {e}", kind.label()));
							} else if !r.ended_cleanly() {
								out.fail(format!("C06:B:apache-avro-file:read-error:{codec}"), format!("{}: shape {}: {:?}", kind.label(), r.shape(), r.items.iter().find(|i| matches!(i, Item::Err { .. }))));
							} else {
								let got = r.values();
								if got.len() != b.values.len() || got.iter().zip(&b.values).any(|(x, y)| *x != y) {
									out.fail(format!("C06:B:apache-avro-file:values-differ:{codec}"), format!("{}: read {} values, apache-avro wrote {}", kind.label(), got.len(), b.values.len()));
								} else {
									let mut um = b.user_meta.clone();
									um.sort();
									if r.meta.as_ref() != Some(&um) {
										out.fail("C06:B:apache-avro-file:user-metadata", format!("{}: got {:?} expected {:?}", kind.label(), r.meta, um));
									}
								}
							}
						}
					}
				}
				out.digest = d.get();
			}
		}
		out
	}

	fn shrink(&self, scn: &Scn) -> Vec<Scn> {
		let mut c = vec![];
		match &scn.dir {
			Dir::A(spec) => {
				for s in shrink_spec(spec) {
					c.push(Scn {
						dir: Dir::A(s),
						rk_seed: scn.rk_seed,
						only_kind: scn.only_kind.clone(),
						apache: scn.apache,
					});
				}
			}
			Dir::B(b) => {
				if scn.only_kind.is_none() {
					let mut s = scn.clone();
					s.only_kind = Some(RKind::Slice);
					c.push(s);
				}
				let mut push = |nb: BSpec| {
					c.push(Scn {
						dir: Dir::B(nb),
						rk_seed: scn.rk_seed,
						only_kind: scn.only_kind.clone(),
						apache: scn.apache,
					})
				};
				if let Some((seed, n, pattern)) = b.many {
					for nn in [n / 2, n.saturating_sub(n / 8 + 1), n.saturating_sub(1)] {
						if nn < n {
							let mut nb = b.clone();
							nb.many = Some((seed, nn, pattern));
							push(nb);
						}
					}
				}
				if b.opts.empty_run > 0 {
					for r in [0, b.opts.empty_run / 2, b.opts.empty_run - 1] {
						let mut nb = b.clone();
						nb.opts.empty_run = r;
						push(nb);
					}
				}
				if !b.values.is_empty() {
					let mut nb = b.clone();
					nb.values.truncate(b.values.len() / 2);
					push(nb);
					for i in 0..b.values.len() {
						let mut nb = b.clone();
						nb.values.remove(i);
						push(nb);
					}
				}
				if !b.user_meta.is_empty() {
					let mut nb = b.clone();
					nb.user_meta.clear();
					push(nb);
				}
				let plain = WriteOpts {
					omit_codec_key: b.opts.omit_codec_key,
					..WriteOpts::default()
				};
				if b.opts != plain {
					let mut nb = b.clone();
					nb.opts = plain;
					push(nb);
				}
				for (flag, f) in [
					(b.opts.meta_split, (|o: &mut WriteOpts| o.meta_split = false) as fn(&mut WriteOpts)),
					(b.opts.meta_negative_count, |o: &mut WriteOpts| o.meta_negative_count = false),
					(b.opts.meta_order_seed != 0, |o: &mut WriteOpts| o.meta_order_seed = 0),
					(b.opts.omit_codec_key, |o: &mut WriteOpts| o.omit_codec_key = false),
					(!b.opts.partition.is_empty(), |o: &mut WriteOpts| o.partition.clear()),
					(b.opts.datum_layout != Layout::default(), |o: &mut WriteOpts| o.datum_layout = Layout::default()),
				] {
					if flag {
						let mut nb = b.clone();
						f(&mut nb.opts);
						push(nb);
					}
				}
			}
		}
		c
	}
}
