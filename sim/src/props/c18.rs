//! C18 — single-object encoding: marker + schema fingerprint + datum, verified on read.
//! Fault space: truncation at every length, every header byte damaged to every other value,
//! reader refill boundaries inside the 10-byte header, schema pairs, sink faults at every call.

use crate::ast::{self, Env, GenCfg, Ty};
use crate::crc64::crc64_avro;
use crate::prng::{Fnv, Rng};
use crate::ref_datum;
use crate::runner::{catch, panic_site, Outcome, Prop, Tier};
use crate::simio::{AcceptPlan, IoErrKind, RefillPlan, SimSink, SinkFault, SinkFaultKind};
use crate::tls;
use crate::val::{self, PresCfg, PresCtx, Presented, Val, ValCfg};
use crate::world::{self, Limits, ReaderKind, Target};
use serde_avro_fast::ser::SerializerConfig;
use serde_derive::{Deserialize, Serialize};

#[derive(Clone, Debug, Serialize, Deserialize, PartialEq)]
pub enum Check {
	/// format + intact round trip under every reader plan
	Intact,
	Truncate { len: usize },
	HeaderByte { idx: usize, val: u8 },
	/// the message is read under `others[i]`
	OtherSchema { i: usize },
	SinkFault { plan: AcceptPlan, fault: SinkFault },
	/// schedule only: a sink that accepts `plan` bytes per call, implementing write_vectored or not
	SinkPlan { plan: AcceptPlan, vectored: bool },
}

#[derive(Clone, Debug, Serialize, Deserialize)]
pub enum Checks {
	Enumerate,
	Only(Vec<Check>),
	/// a LONG history: `n` messages (`val::gen_long_vals`) written through ONE serializer configuration, then read back
	/// one after the other from one source (`val` of the scenario is not used)
	LongStream { seed: u64, n: u32, pattern: u8 },
}

#[derive(Clone, Debug, Serialize, Deserialize)]
pub struct Scn {
	pub schema: Ty,
	pub val: Val,
	pub pres: PresCfg,
	/// schemas with a different canonical form
	pub others: Vec<Ty>,
	pub checks: Checks,
}

pub struct C18;

const TRAILER: [u8; 5] = [0xC3, 0x01, 0x00, 0x80, 0x7f];

/// Variants of `ty` whose Parsing Canonical Form differs (names, field order, symbols, sizes, structure)
pub fn canonical_variants(rng: &mut Rng, ty: &Ty) -> Vec<Ty> {
	let mut out = vec![];
	fn mutate(ty: &Ty, rng: &mut Rng, which: u32, counter: &mut u32) -> Ty {
		let here = *counter == which;
		*counter += 1;
		match ty {
			Ty::Record { name, fields } => {
				if here {
					return match rng.below(3) {
						0 if fields.len() >= 2 => {
							let mut f = fields.clone();
							f.swap(0, 1);
							Ty::Record { name: *name, fields: f }
						}
						1 if !fields.is_empty() => {
							let mut f = fields.clone();
							// a field name not otherwise used in this record
							let used: Vec<u16> = f.iter().map(|x| x.0).collect();
							let fresh = (0..ast::FIELD_NAMES.len() as u16).find(|i| !used.contains(i)).unwrap_or(0);
							f[0].0 = fresh;
							Ty::Record { name: *name, fields: f }
						}
						_ => Ty::Record { name: 31, fields: fields.clone() },
					};
				}
				Ty::Record { name: *name, fields: fields.iter().map(|(f, t)| (*f, mutate(t, rng, which, counter))).collect() }
			}
			Ty::Enum { name, symbols } if here => {
				if rng.bool() {
					Ty::Enum { name: *name, symbols: symbols + 1 }
				} else {
					Ty::Enum { name: 30, symbols: *symbols }
				}
			}
			Ty::Fixed { name, size } if here => {
				if rng.bool() {
					Ty::Fixed { name: *name, size: size + 1 }
				} else {
					Ty::Fixed { name: 29, size: *size }
				}
			}
			Ty::Int if here => Ty::Long,
			Ty::Long if here => Ty::Int,
			Ty::String if here => Ty::Bytes,
			Ty::Bytes if here => Ty::String,
			Ty::Float if here => Ty::Double,
			Ty::Double if here => Ty::Float,
			Ty::Boolean if here => Ty::Int,
			Ty::Null if here => Ty::Boolean,
			Ty::Array(t) => {
				if here {
					Ty::Map(t.clone())
				} else {
					Ty::Array(Box::new(mutate(t, rng, which, counter)))
				}
			}
			Ty::Map(t) => {
				if here {
					Ty::Array(t.clone())
				} else {
					Ty::Map(Box::new(mutate(t, rng, which, counter)))
				}
			}
			Ty::Union(ts) => {
				if here && ts.len() >= 2 {
					let mut v = ts.clone();
					v.swap(0, 1);
					return Ty::Union(v);
				}
				Ty::Union(ts.iter().map(|t| mutate(t, rng, which, counter)).collect())
			}
			other => other.clone(),
		}
	}
	fn count(ty: &Ty) -> u32 {
		1 + match ty {
			Ty::Record { fields, .. } => fields.iter().map(|(_, t)| count(t)).sum(),
			Ty::Array(t) | Ty::Map(t) => count(t),
			Ty::Union(ts) => ts.iter().map(count).sum(),
			_ => 0,
		}
	}
	let n = count(ty);
	for _ in 0..4 {
		let which = rng.below(n as u64) as u32;
		let mut c = 0;
		let m = mutate(ty, rng, which, &mut c);
		if m != *ty && ast::well_formed(&m) && !uses_reserved_twice(&m) {
			out.push(m);
		}
	}
	out
}

fn uses_reserved_twice(ty: &Ty) -> bool {
	let mut d = vec![];
	ast::collect_defined(ty, &mut d);
	let mut s = d.clone();
	s.sort();
	s.dedup();
	s.len() != d.len()
}

fn enumerate_checks(msg_len: usize, others: usize, seed: u64, sink_calls_fixed1: u64) -> Vec<Check> {
	let mut rng = Rng::from_seed(seed);
	let mut v = vec![Check::Intact];
	if msg_len <= 2048 {
		for len in 0..msg_len {
			v.push(Check::Truncate { len });
		}
	} else {
		// a large message: every cut near both ends and around the 8 KiB / 64 KiB marks, a seeded sample elsewhere
		let mut lens: Vec<usize> = (0..64).chain(msg_len - 64..msg_len).collect();
		for mark in [8192usize, 16384, 65536] {
			lens.extend((mark - 3..mark + 14).filter(|l| *l < msg_len));
		}
		for _ in 0..150 {
			lens.push(rng.usize(msg_len));
		}
		lens.sort_unstable();
		lens.dedup();
		v.extend(lens.into_iter().map(|len| Check::Truncate { len }));
	}
	for idx in 0..10 {
		for val in 0..=255u8 {
			v.push(Check::HeaderByte { idx, val });
		}
	}
	for i in 0..others {
		v.push(Check::OtherSchema { i });
	}
	for vectored in [false, true] {
		for k in [1usize, 2, 3, 5, 9, 10, 11, 64] {
			v.push(Check::SinkPlan { plan: AcceptPlan::Fixed(k), vectored });
		}
		v.push(Check::SinkPlan { plan: AcceptPlan::All, vectored });
	}
	// sink: Interrupted and a hard error at every call index, on an accept-all sink and on Fixed(1)
	for (plan, calls) in [(AcceptPlan::All, 3 + msg_len as u64), (AcceptPlan::Fixed(1), sink_calls_fixed1)] {
		for at in 0..calls.min(64) {
			v.push(Check::SinkFault { plan: plan.clone(), fault: SinkFault { at_call: at, kind: SinkFaultKind::Interrupted } });
			let kind = match rng.below(3) {
				0 => SinkFaultKind::Hard(IoErrKind::Other),
				1 => SinkFaultKind::Hard(IoErrKind::BrokenPipe),
				_ => SinkFaultKind::Zero,
			};
			v.push(Check::SinkFault { plan: plan.clone(), fault: SinkFault { at_call: at, kind } });
		}
	}
	v
}

fn header_plans() -> Vec<ReaderKind> {
	let mut v = vec![ReaderKind::Direct(RefillPlan::Whole)];
	for k in 1..=12 {
		v.push(ReaderKind::Direct(RefillPlan::Fixed(k)));
	}
	for c in 1..10 {
		v.push(ReaderKind::Direct(RefillPlan::Cuts(vec![c])));
	}
	v.push(ReaderKind::Direct(RefillPlan::Cuts(vec![2, 10])));
	v.push(ReaderKind::Direct(RefillPlan::Cycle(vec![3, 1, 4])));
	for cap in [1usize, 2, 9, 10, 11] {
		v.push(ReaderKind::BufReader { cap, plan: RefillPlan::Fixed(4) });
	}
	v
}

fn few_plans(i: usize) -> Vec<ReaderKind> {
	let all = [
		ReaderKind::Direct(RefillPlan::Whole),
		ReaderKind::Direct(RefillPlan::Fixed(1)),
		ReaderKind::Direct(RefillPlan::Fixed(3)),
		ReaderKind::Direct(RefillPlan::Fixed(7)),
		ReaderKind::BufReader { cap: 4, plan: RefillPlan::Whole },
	];
	vec![all[i % all.len()].clone()]
}

impl C18 {
	/// Many messages through ONE serializer configuration (each must be marker + fingerprint + exactly the datum a
	/// fresh configuration writes), then all of them read back one after the other from one source.
	fn exec_long(&self, scn: &Scn, env: &Env, schema: &serde_avro_fast::Schema, seed: u64, n: u32, pattern: u8, out: &mut Outcome) {
		out.count("long_history", 1);
		let vals = val::gen_long_vals(seed, env, &scn.schema, n, pattern);
		let mut config = SerializerConfig::new(schema);
		config.allow_slow_sequence_to_bytes();
		let mut stream: Vec<u8> = vec![];
		let mut offs: Vec<usize> = vec![];
		let mut digest = Fnv::new();
		for (i, v) in vals.iter().enumerate() {
			let datum = match world::crate_encode(schema, env, &scn.schema, v, PresCfg::plain()) {
				Ok(d) => d,
				Err(_) => {
					out.count("skipped_value_does_not_serialize", 1);
					return;
				}
			};
			let ctx = PresCtx::new(env, PresCfg::plain(), None);
			let sink = SimSink::all();
			let r = catch(|| serde_avro_fast::to_single_object(&Presented::new(v, &scn.schema, &ctx), sink.clone(), &mut config));
			out.evals += 1;
			match r {
				Err(p) => {
					out.fail(format!("C18:panic:to_single_object:{}", panic_site(&p)), format!("message #{i} of {n} on one configuration: {p}"));
					return;
				}
				Ok(Err(e)) => {
					out.fail("C18:long:message-refused-on-used-configuration", format!("message #{i} of {n}: {e}"));
					return;
				}
				Ok(Ok(_)) => {}
			}
			let msg = sink.accepted();
			let mut want = vec![0xC3, 0x01];
			want.extend_from_slice(schema.rabin_fingerprint());
			want.extend_from_slice(&datum);
			if msg != want {
				out.fail(
					if msg.len() < 10 || msg[..10] != want[..10] { "C18:format:long:header" } else { "C18:format:long:datum-differs-from-to_datum" },
					format!("message #{i} of {n} written through one configuration: {} bytes {:02x?}..., expected {} bytes {:02x?}...", msg.len(), &msg[..msg.len().min(14)], want.len(), &want[..want.len().min(14)]),
				);
				return;
			}
			offs.push(stream.len());
			stream.extend_from_slice(&msg);
			digest.bytes(&msg);
		}
		let total = stream.len();
		stream.extend_from_slice(&TRAILER);
		// read back: slice by slice
		for (i, v) in vals.iter().enumerate() {
			let end = offs.get(i + 1).copied().unwrap_or(total);
			let d = tls::decode_single_object_slice(schema, env, &scn.schema, &stream[offs[i]..end], Target::capture(), Limits::sim_default());
			out.evals += 1;
			if d.res.as_ref().ok() != Some(v) {
				out.fail("C18:long:slice-read-differs", format!("message #{i} of {n}: {:?}, written {v:?}", d.res));
				return;
			}
		}
		// ... and all of them, one after the other, from one source
		let mut rng = Rng::from_seed(seed ^ 0x1234_5678);
		let plans = vec![
			ReaderKind::Direct(RefillPlan::Whole),
			ReaderKind::Direct(RefillPlan::Fixed(1 + rng.usize(4))),
			ReaderKind::Direct(RefillPlan::Fixed(5 + rng.usize(40))),
			ReaderKind::Direct(RefillPlan::Cycle(vec![1 + rng.usize(12), 1 + rng.usize(3), 1 + rng.usize(30)])),
			ReaderKind::BufReader { cap: 1 + rng.usize(64), plan: RefillPlan::Fixed(1 + rng.usize(100)) },
		];
		for kind in &plans {
			let (plan, cap) = match kind {
				ReaderKind::Direct(p) => (p.clone(), None),
				ReaderKind::BufReader { cap, plan } => (plan.clone(), Some(*cap)),
			};
			let mut src = crate::simio::SimSource::new(&stream, plan).with_step_budget(world::step_budget(stream.len(), &Limits::sim_default()) + 64 * n as u64);
			let mut br: Option<std::io::BufReader<&mut crate::simio::SimSource>> = None;
			let rd: &mut dyn std::io::BufRead = match cap {
				Some(c) => br.insert(std::io::BufReader::with_capacity(c.max(1), &mut src)),
				None => &mut src,
			};
			let mut bad: Option<(usize, String)> = None;
			for (i, v) in vals.iter().enumerate() {
				let r = catch(|| tls::with_ctx_pub(env, &scn.schema, Target::capture(), || serde_avro_fast::from_single_object_reader::<_, tls::ViaTls>(&mut *rd, schema)));
				out.evals += 1;
				match r {
					Err(p) => {
						out.fail(format!("C18:panic:from_single_object_reader:{}", panic_site(&p)), format!("{}: message #{i} of {n}: {p}", kind.label()));
						return;
					}
					Ok(Err(e)) => bad = Some((i, e.to_string())),
					Ok(Ok(got)) if got.0 != *v => bad = Some((i, format!("{:?} instead of {v:?}", got.0))),
					Ok(Ok(_)) => {}
				}
				if bad.is_some() {
					break;
				}
			}
			if let Some((i, e)) = bad {
				out.fail("C18:long:reader-read-differs", format!("{}: message #{i} of {n} read from one source: {e}", kind.label()));
				return;
			}
			let buffered = br.as_ref().map_or(0, |b| b.buffer().len());
			drop(br);
			if src.position() - buffered != total {
				out.fail("C18:long:reader-consumed-differs", format!("{}: {} bytes consumed for {n} messages of {total} bytes", kind.label(), src.position() - buffered));
				return;
			}
			let st = src.finish();
			out.steps += st.calls;
			digest.u64(st.digest);
			if !st.contract_violations.is_empty() {
				out.fail("C18:bufread-contract", format!("{}: {}", kind.label(), st.contract_violations[0]));
				return;
			}
			let mut sig = Fnv::new();
			sig.str("c18-long").u64(pattern as u64).u64((n / 256) as u64).str(&kind.label()[..4.min(kind.label().len())]);
			out.sig(sig);
		}
		out.digest = digest.get();
	}
}

impl Prop for C18 {
	type Scn = Scn;
	fn id(&self) -> &'static str {
		"C18"
	}
	fn level(&self) -> &'static str {
		"fault_enumeration"
	}
	fn rule(&self) -> &'static str {
		"A scenario is (schema S1, value, presentation, up to four schemas with a different canonical form: a name / field name / field order / symbol count / fixed size / primitive type / union order changed). Enumerated per scenario: \
		 the intact message (format: C3 01 ++ Schema::rabin_fingerprint() ++ exactly the to_datum bytes, which the reference datum decoder turns back into the value; on the plain schema subset the fingerprint equals the little-endian bytes of the simulator's own bit-by-bit CRC-64-AVRO of the canonical form) read from the slice and under reader plans Fixed(1..12), one cut at every header offset, BufReader capacities around 10, with a trailer that must stay unread; \
		 truncation at EVERY length 0..len; EVERY header byte replaced by EVERY other value (2550 damages); the message read under each other schema; to_single_object against sinks with Interrupted / hard error / Ok(0) at EVERY call index (accept-all and Fixed(1)). \
		 An evaluation is one encode or decode. Non-trivial = a fault was applied or a refill boundary fell inside the header; distinct = distinct (check kind, header byte index or truncation region, reader kind, outcome, schema shape class). Every schema is also reached by the road less travelled: parsed into the editable graph, its fingerprint asked for, one primitive leaf changed through nodes_mut(), frozen — the frozen schema's fingerprint must be that of its own JSON parsed afresh. One scenario in 150 is a LONG history: 250-1150 messages written through ONE serializer configuration (each must be marker ++ fingerprint ++ exactly the datum a fresh configuration writes), then read back slice by slice and one after the other from ONE source under five reader plans (values, and the bytes consumed in total). The intact message is also decoded under alternative-hint, partly ignoring (two masks), ignoring and blind targets on both input paths (what is kept, where the decoder stops, agreement of the two paths); every schema is parsed a second time from a spelling with a forward reference, which must give the same fingerprint and accept the same messages; messages above 2 KiB are cut at both ends, around the 8 / 16 / 64 KiB marks and at 150 seeded offsets instead of everywhere; one scenario in forty is deliberately large-scale."
	}
	fn assumptions(&self) -> Vec<String> {
		vec![
			"whether the canonical form is right for every schema is C08's question; here endianness is cross-checked on the plain subset only".into(),
			"two schemas with different canonical forms are assumed not to collide under CRC-64 (fixed PRNG value, so a collision would be a repeatable, inspectable event)".into(),
		]
	}
	fn expected_probes(&self) -> Vec<&'static str> {
		vec!["long_history", "fault_header_byte", "fault_truncation", "fingerprint_endianness_cross_checked", "reader_refill_boundary_inside_header", "schema_pairs_checked", "sink_hard_or_zero_fired", "sink_interrupted_fired", "sink_accept_schedule_checked"]
	}
	fn budget(&self, tier: Tier) -> (u64, u64) {
		match tier {
			Tier::Quick => (30_000, 90),
			Tier::Thorough => (600_000, 1200),
		}
	}

	fn gen(&self, rng: &mut Rng, _tier: Tier, _run: u64) -> Scn {
		let corner = ast::corner_schemas();
		let mut scale = None;
		let schema = if rng.chance(1, 40) {
			let cheap = rng.bool();
			let (ty, sc) = ast::gen_scale_schema(rng, cheap);
			scale = Some(sc);
			ty
		} else if rng.chance(1, 8) {
			rng.pick(&corner).clone()
		} else {
			let mut cfg = GenCfg::default_swarm(rng);
			if rng.bool() {
				cfg.logical = false;
				cfg.decimals = false;
			}
			ast::gen_schema(rng, cfg)
		};
		let env = Env::build(&schema);
		let vcfg = ValCfg { max_len: 1 + rng.usize(5), max_depth: 4, budget: 6 + rng.below(30) as i32, str_boost: if rng.chance(1, 60) { 9000 } else { 0 }, scale: None }.with_scale(scale);
		let v = val::gen_val(rng, &env, &schema, &vcfg);
		if scale.is_none() && rng.chance(1, 150) {
			// a LONG history: hundreds of messages through one serializer configuration and one source
			let schema = match rng.below(5) {
				0 => Ty::String,
				1 => Ty::Bytes,
				2 => Ty::Record { name: 0, fields: vec![(0, Ty::Int), (1, Ty::String)] },
				3 => Ty::Long,
				_ => schema,
			};
			let pattern = rng.below(7) as u8;
			let n = (250 + rng.below(900) as u32).min(if matches!(pattern, 2 | 3 | 6) { 600 } else { 2000 });
			return Scn { schema, val: Val::Null, pres: PresCfg::plain(), others: vec![], checks: Checks::LongStream { seed: rng.next_u64(), n, pattern } };
		}
		let others = canonical_variants(rng, &schema);
		Scn {
			schema,
			val: v,
			pres: if rng.bool() { PresCfg::plain() } else { PresCfg::random(rng, true) },
			others,
			checks: Checks::Enumerate,
		}
	}

	fn exec(&self, scn: &Scn) -> Outcome {
		let mut out = Outcome::default();
		{
			let mut classes = vec![];
			crate::val::scale_classes(&scn.val, &mut classes);
			classes.into_iter().for_each(|c| out.count(c, 1));
		}
		let env = Env::build(&scn.schema);
		let schema = match world::parse_schema(&scn.schema) {
			Ok(s) => s,
			Err(e) => {
				out.fail("harness:C18:schema", e);
				return out;
			}
		};
		if let Checks::LongStream { seed, n, pattern } = &scn.checks {
			self.exec_long(scn, &env, &schema, *seed, *n, *pattern, &mut out);
			return out;
		}
		// ---- the road less travelled to a Schema: parse into the editable graph, ASK FOR ITS FINGERPRINT, edit one
		// leaf through nodes_mut() (a primitive becomes another primitive), freeze. Whatever the frozen schema says its
		// fingerprint is must be the fingerprint of what it says its JSON is (parsed afresh): the fingerprint is a
		// function of the schema, not of the history of the graph it was frozen from.
		{
			use serde_avro_fast::schema::{RegularType, SchemaMut};
			let json = ast::to_json(&scn.schema);
			if let Ok(mut sm) = json.parse::<SchemaMut>() {
				let before = sm.canonical_form_rabin_fingerprint().ok();
				let pick = json.len() % 5;
				let mut edited = false;
				for node in sm.nodes_mut().iter_mut() {
					if node.logical_type.is_some() {
						continue;
					}
					let new = match (&node.type_, pick) {
						(RegularType::Int, _) => Some(RegularType::String),
						(RegularType::Long, _) => Some(RegularType::Bytes),
						(RegularType::String, _) => Some(RegularType::Long),
						(RegularType::Boolean, _) => Some(RegularType::Double),
						(RegularType::Double, _) => Some(RegularType::Float),
						_ => None,
					};
					if let Some(t) = new {
						node.type_ = t;
						edited = true;
						break;
					}
				}
				if edited {
					out.evals += 1;
					if let Ok(frozen) = sm.freeze() {
						out.count("schema_frozen_from_a_graph_edited_after_its_fingerprint_was_asked_for", 1);
						match frozen.json().parse::<serde_avro_fast::Schema>() {
							Ok(fresh) => {
								if fresh.rabin_fingerprint() != frozen.rabin_fingerprint() {
									out.fail("C18:format:fingerprint-of-an-edited-graph-is-not-that-of-its-schema", format!("frozen after an edit: fingerprint {:02x?}; the same JSON parsed afresh: {:02x?}; before the edit: {before:02x?}; schema now {}", frozen.rabin_fingerprint(), fresh.rabin_fingerprint(), frozen.json()));
									return out;
								}
							}
							Err(_) => out.count("edited_graph_json_does_not_reparse", 1),
						}
					}
				}
			}
		}
		let limits = Limits::sim_default();
		let mk_config = |s| {
			let mut c = SerializerConfig::new(s);
			c.allow_slow_sequence_to_bytes();
			c
		};
		// the message, through the real API
		let mut config = mk_config(&schema);
		let ctx = PresCtx::new(&env, scn.pres, None);
		let sink = SimSink::all();
		let r = catch(|| serde_avro_fast::to_single_object(&Presented::new(&scn.val, &scn.schema, &ctx), sink.clone(), &mut config));
		out.evals += 1;
		match r {
			Err(p) => {
				out.fail(format!("C18:panic:to_single_object:{}", panic_site(&p)), p);
				return out;
			}
			Ok(Err(e)) => {
				// a conforming value that does not serialize is C01/C02's business
				let _ = e;
				out.count("skipped_value_does_not_serialize", 1);
				return out;
			}
			Ok(Ok(_)) => {}
		}
		let msg = sink.accepted();
		let datum = match world::crate_encode(&schema, &env, &scn.schema, &scn.val, scn.pres) {
			Ok(d) => d,
			Err(_) => {
				out.count("skipped_value_does_not_serialize", 1);
				return out;
			}
		};
		let fixed1_calls = {
			let s = SimSink::new(AcceptPlan::Fixed(1), false);
			let mut c = mk_config(&schema);
			let ctx = PresCtx::new(&env, scn.pres, None);
			let _ = serde_avro_fast::to_single_object(&Presented::new(&scn.val, &scn.schema, &ctx), s.clone(), &mut c);
			s.calls()
		};
		let checks = match &scn.checks {
			Checks::Enumerate => enumerate_checks(msg.len(), scn.others.len(), 7, fixed1_calls),
			Checks::Only(c) => c.clone(),
			Checks::LongStream { .. } => unreachable!(),
		};
		let mut digest = Fnv::new();
		digest.bytes(&msg);
		let shape = match &scn.schema {
			Ty::Record { .. } => 1u64,
			Ty::Union(_) => 2,
			Ty::Array(_) | Ty::Map(_) => 3,
			_ => 0,
		};
		let mut with_trailer = msg.clone();
		with_trailer.extend_from_slice(&TRAILER);
		let other_schemas: Vec<Option<serde_avro_fast::Schema>> = scn.others.iter().map(|t| world::parse_schema(t).ok()).collect();
		for (ci, check) in checks.iter().enumerate() {
			match check {
				Check::Intact => {
					// format
					let fp = *schema.rabin_fingerprint();
					if msg.len() < 10 || msg[0..2] != [0xC3, 0x01] {
						out.fail("C18:format:marker", format!("message starts with {:02x?}", &msg[..msg.len().min(2)]));
						break;
					}
					if msg[2..10] != fp {
						out.fail("C18:format:fingerprint-not-Schema::rabin_fingerprint", format!("{:02x?} vs {:02x?}", &msg[2..10], fp));
						break;
					}
					if msg[10..] != datum[..] {
						out.fail("C18:format:body-is-not-the-datum-encoding", format!("{} body bytes vs {} datum bytes", msg.len() - 10, datum.len()));
						break;
					}
					match ref_datum::decode(&env, &scn.schema, &msg[10..]) {
						Ok((v, used)) if v == scn.val && used == msg.len() - 10 => {}
						other => {
							out.fail("C18:format:reference-decoder-disagrees", format!("{other:?}"));
							break;
						}
					}
					// another spelling of the same schema (a forward reference): same canonical form, so the same
					// fingerprint, and messages must be interchangeable
					if let Some(fwd_json) = ast::to_json_forward(&scn.schema) {
						match fwd_json.parse::<serde_avro_fast::Schema>() {
							Ok(fwd) => {
								out.count("forward_reference_spelling_checked", 1);
								if fwd.rabin_fingerprint() != &fp {
									out.fail(
										"C18:format:same-schema-other-spelling-other-fingerprint",
										format!("{} and {} denote the same schema (same canonical form) but get fingerprints {:02x?} and {:02x?}", ast::to_json(&scn.schema), fwd_json, fp, fwd.rabin_fingerprint()),
									);
									break;
								}
								let r = tls::decode_single_object_slice(&fwd, &env, &scn.schema, &msg, Target::capture(), limits);
								out.evals += 1;
								if r.res.as_ref().ok() != Some(&scn.val) {
									out.fail("C18:intact:other-spelling-of-the-same-schema-rejects", format!("{:?}", r.res));
									break;
								}
							}
							Err(e) => {
								// forward references are something the crate's parser documents as supported (C07's business if not)
								out.count("forward_reference_spelling_rejected_by_parser", 1);
								let _ = e;
							}
						}
					}
					if let Some(cf) = ast::canonical_form_plain(&scn.schema) {
						out.count("fingerprint_endianness_cross_checked", 1);
						let expect = crc64_avro(cf.as_bytes()).to_le_bytes();
						if expect != fp {
							out.fail(
								if crc64_avro(cf.as_bytes()).to_be_bytes() == fp { "C18:format:fingerprint-big-endian" } else { "C18:format:fingerprint-not-crc64-of-canonical-form" },
								format!("canonical form {cf}: expected {expect:02x?}, schema reports {fp:02x?}"),
							);
							break;
						}
					}
					// intact round trip, slice and reader plans, trailer untouched
					let s = tls::decode_single_object_slice(&schema, &env, &scn.schema, &with_trailer, Target::capture(), limits);
					out.evals += 1;
					match &s.res {
						Ok(v) if *v == scn.val && s.consumed == msg.len() => {}
						other => {
							out.fail("C18:intact:slice", format!("expected the value and {} bytes consumed, got {other:?} / {}", msg.len(), s.consumed));
							break;
						}
					}
					let mut bad = false;
					for kind in header_plans() {
						let (r, st) = tls::decode_single_object_reader(&schema, &env, &scn.schema, &with_trailer, Target::capture(), limits, &kind);
						out.evals += 1;
						out.steps += st.calls;
						digest.u64(st.digest);
						let mut sig = Fnv::new();
						sig.str("intact").str(&kind.label()).u64(shape);
						out.sig(sig);
						out.count("reader_refill_boundary_inside_header", 1);
						match &r.res {
							Ok(v) if *v == scn.val => {}
							other => {
								out.fail("C18:intact:reader", format!("plan {}: {other:?}", kind.label()));
								bad = true;
								break;
							}
						}
						if r.consumed != msg.len() {
							out.fail("C18:intact:reader-consumed", format!("plan {}: consumed {} of a {}-byte message", kind.label(), r.consumed, msg.len()));
							bad = true;
							break;
						}
					}
					if bad {
						break;
					}
					// the other ways a caller's types may ask for the same message: alternative hints, fields it has no
					// use for (ignored), nothing at all. What is kept must be what was written and the decoder must stop
					// where the message ends, on both input paths.
					let seed = shape ^ msg.len() as u64;
					for (ti, target) in [Target::AltHints(seed), Target::Masked(seed), Target::Masked(!seed), Target::Ignored, Target::Blind].into_iter().enumerate() {
						let s = tls::decode_single_object_slice(&schema, &env, &scn.schema, &with_trailer, target, limits);
						let (r, st) = tls::decode_single_object_reader(&schema, &env, &scn.schema, &with_trailer, target, limits, &few_plans(ti + msg.len())[0]);
						out.evals += 2;
						out.steps += st.calls;
						out.count("intact_message_under_other_targets", 1);
						if matches!(target, Target::AltHints(_)) {
							// a hint that does not fit the value (u64 for a negative long ...) is legitimately refused: the
							// two input paths must agree, whatever the answer
							if s.res != r.res || (s.res.is_ok() && (s.consumed != msg.len() || r.consumed != msg.len())) {
								out.fail("C18:intact:alt-hints-target:slice-and-reader-disagree", format!("slice {:?} ({} bytes), reader {:?} ({} bytes), message of {}", s.res, s.consumed, r.res, r.consumed, msg.len()));
								bad = true;
								break;
							}
							continue;
						}
						for (path, o) in [("slice", &s), ("reader", &r)] {
							let ok = match (&o.res, target) {
								(Ok(v), Target::Masked(_)) => crate::val::eq_modulo_mask(v, &scn.val),
								(Ok(_), _) => true,
								(Err(_), _) => false,
							};
							if !ok {
								out.fail(format!("C18:intact:{}-target:{path}", target.label()), format!("{:?}", o.res));
								bad = true;
								break;
							}
							if o.consumed != msg.len() {
								out.fail(format!("C18:intact:{}-target:{path}-consumed", target.label()), format!("consumed {} of a {}-byte message", o.consumed, msg.len()));
								bad = true;
								break;
							}
						}
						if bad {
							break;
						}
					}
					if bad {
						break;
					}
				}
				Check::Truncate { len } => {
					let cut = &msg[..(*len).min(msg.len())];
					if cut.len() == msg.len() {
						continue;
					}
					let region = if cut.len() < 2 { "marker" } else if cut.len() < 10 { "fingerprint" } else { "datum" };
					let s = catch(|| tls::decode_single_object_slice(&schema, &env, &scn.schema, cut, Target::capture(), limits));
					out.evals += 1;
					out.count("fault_truncation", 1);
					let mut sig = Fnv::new();
					sig.str("trunc").str(region).u64(shape);
					out.sig(sig);
					match s {
						Err(p) => {
							out.fail(format!("C18:panic:truncated-slice:{}", panic_site(&p)), format!("len {len}: {p}"));
							break;
						}
						Ok(o) if o.res.is_ok() => {
							out.fail(format!("C18:truncated:{region}:slice-accepted"), format!("message cut to {len} of {} bytes decoded to {:?}", msg.len(), o.res));
							break;
						}
						_ => {}
					}
					let mut bad = false;
					for kind in few_plans(ci) {
						let r = catch(|| tls::decode_single_object_reader(&schema, &env, &scn.schema, cut, Target::capture(), limits, &kind));
						out.evals += 1;
						match r {
							Err(p) => {
								out.fail(format!("C18:panic:truncated-reader:{}", panic_site(&p)), format!("len {len}: {p}"));
								bad = true;
							}
							Ok((o, st)) => {
								out.steps += st.calls;
								digest.u64(st.digest);
								if o.res.is_ok() {
									out.fail(format!("C18:truncated:{region}:reader-accepted"), format!("plan {}: message cut to {len} bytes decoded", kind.label()));
									bad = true;
								}
							}
						}
					}
					if bad {
						break;
					}
				}
				Check::HeaderByte { idx, val } => {
					if *idx >= 10 || msg.len() < 10 || msg[*idx] == *val {
						continue;
					}
					let mut m = with_trailer.clone();
					m[*idx] = *val;
					let region = if *idx < 2 { "marker" } else { "fingerprint" };
					out.count("fault_header_byte", 1);
					let mut sig = Fnv::new();
					sig.str("hdr").u64(*idx as u64).u64(shape).u64((*val as u64) >> 6);
					out.sig(sig);
					let s = tls::decode_single_object_slice(&schema, &env, &scn.schema, &m, Target::capture(), limits);
					out.evals += 1;
					if s.res.is_ok() {
						out.fail(format!("C18:damaged-{region}:slice-accepted"), format!("header byte {idx} set to {val:#04x}: decoded"));
						break;
					}
					// the reader path on a rotating plan
					let kind = &few_plans(ci)[0];
					let (r, st) = tls::decode_single_object_reader(&schema, &env, &scn.schema, &m, Target::capture(), limits, kind);
					out.evals += 1;
					out.steps += st.calls;
					digest.u64(st.digest);
					if r.res.is_ok() {
						out.fail(format!("C18:damaged-{region}:reader-accepted"), format!("header byte {idx} set to {val:#04x}, plan {}: decoded", kind.label()));
						break;
					}
				}
				Check::OtherSchema { i } => {
					let (Some(Some(s2)), Some(t2)) = (other_schemas.get(*i), scn.others.get(*i)) else { continue };
					let env2 = Env::build(t2);
					out.count("schema_pairs_checked", 1);
					let mut sig = Fnv::new();
					sig.str("pair").u64(shape).u64(*i as u64);
					out.sig(sig);
					if s2.rabin_fingerprint() == schema.rabin_fingerprint() {
						out.fail("C18:distinct-canonical-forms-same-fingerprint", format!("{} and {}", ast::to_json(&scn.schema), ast::to_json(t2)));
						break;
					}
					let s = catch(|| tls::decode_single_object_slice(s2, &env2, t2, &msg, Target::Blind, limits));
					out.evals += 1;
					match s {
						Err(p) => {
							out.fail(format!("C18:panic:other-schema:{}", panic_site(&p)), p);
							break;
						}
						Ok(o) if o.res.is_ok() => {
							out.fail("C18:other-schema:slice-accepted", format!("message written under {} decoded under {}", ast::to_json(&scn.schema), ast::to_json(t2)));
							break;
						}
						_ => {}
					}
					let kind = &few_plans(ci)[0];
					let (r, st) = tls::decode_single_object_reader(s2, &env2, t2, &msg, Target::Blind, limits, kind);
					out.evals += 1;
					out.steps += st.calls;
					if r.res.is_ok() {
						out.fail("C18:other-schema:reader-accepted", format!("plan {}: message written under {} decoded under {}", kind.label(), ast::to_json(&scn.schema), ast::to_json(t2)));
						break;
					}
				}
				Check::SinkPlan { plan, vectored } => {
					let s = SimSink::new(plan.clone(), *vectored).with_step_budget(64 + 8 * msg.len() as u64);
					let mut c = mk_config(&schema);
					let ctx = PresCtx::new(&env, scn.pres, None);
					let r = catch(|| serde_avro_fast::to_single_object(&Presented::new(&scn.val, &scn.schema, &ctx), s.clone(), &mut c).map(|_| ()));
					out.evals += 1;
					out.steps += s.calls();
					digest.u64(s.digest());
					out.count("sink_accept_schedule_checked", 1);
					let mut sig = Fnv::new();
					sig.str("sinkplan").str(&plan.label()).u64(*vectored as u64).u64(shape);
					out.sig(sig);
					match r {
						Err(p) => {
							out.fail(format!("C18:panic:sink-plan:{}", panic_site(&p)), p);
							break;
						}
						Ok(Err(e)) => {
							out.fail("C18:sink-schedule:call-failed", format!("{} vectored={vectored}: {e}", plan.label()));
							break;
						}
						Ok(Ok(())) => {
							if s.accepted() != msg {
								out.fail(
									"C18:sink-schedule-changes-output",
									format!("{} vectored={vectored}: sink got {:02x?}, expected {:02x?}", plan.label(), &s.accepted()[..s.accepted_len().min(14)], &msg[..msg.len().min(14)]),
								);
								break;
							}
						}
					}
				}
				Check::SinkFault { plan, fault } => {
					let s = SimSink::new(plan.clone(), false).with_faults(vec![*fault]).with_step_budget(64 + 8 * msg.len() as u64);
					let mut c = mk_config(&schema);
					let ctx = PresCtx::new(&env, scn.pres, None);
					let r = catch(|| serde_avro_fast::to_single_object(&Presented::new(&scn.val, &scn.schema, &ctx), s.clone(), &mut c).map(|_| ()));
					out.evals += 1;
					out.steps += s.calls();
					digest.u64(s.digest());
					let st = s.stats();
					let fired = st.interrupted_fired + st.hard_fired + st.zero_fired > 0;
					if !fired {
						continue;
					}
					let region = if s.accepted_len() < 2 { "marker" } else if s.accepted_len() < 10 { "fingerprint" } else { "datum" };
					let mut sig = Fnv::new();
					sig.str("sink").str(&plan.label()).u64(match fault.kind {
						SinkFaultKind::Interrupted => 0,
						SinkFaultKind::Hard(_) => 1,
						SinkFaultKind::Zero => 2,
					});
					sig.str(region).u64(shape);
					out.sig(sig);
					let res = match r {
						Err(p) => {
							out.fail(format!("C18:panic:sink-fault:{}", panic_site(&p)), p);
							break;
						}
						Ok(r) => r,
					};
					match fault.kind {
						SinkFaultKind::Interrupted => {
							out.count("sink_interrupted_fired", 1);
							if res.is_err() || s.accepted() != msg {
								out.fail("C18:sink-interrupted-changes-output", format!("{:?} on {}: result {:?}, {} of {} bytes", fault, plan.label(), res.map_err(|e| e.to_string()), s.accepted_len(), msg.len()));
								break;
							}
						}
						_ => {
							out.count("sink_hard_or_zero_fired", 1);
							if res.is_ok() {
								out.fail(format!("C18:sink-error-swallowed:{region}"), format!("{:?} on {}", fault, plan.label()));
								break;
							}
							let upto = st.len_at_first_hard_fault.unwrap_or(s.accepted_len()).min(s.accepted_len());
							if !msg.starts_with(&s.accepted()[..upto]) {
								out.fail("C18:bytes-before-sink-error-not-a-prefix", format!("{:?} on {}", fault, plan.label()));
								break;
							}
						}
					}
				}
			}
		}
		out.digest = digest.get();
		out
	}

	fn shrink(&self, scn: &Scn) -> Vec<Scn> {
		let mut c = vec![];
		match &scn.checks {
			Checks::LongStream { seed, n, pattern } => {
				for nn in [n / 2, n - n / 8 - 1, n - 1] {
					if nn > 0 && nn < *n {
						let mut s = scn.clone();
						s.checks = Checks::LongStream { seed: *seed, n: nn, pattern: *pattern };
						c.push(s);
					}
				}
			}
			Checks::Enumerate => {
				// find the failing check kind by groups, then singles
				let all = enumerate_checks(400, scn.others.len(), 7, 420);
				let mut groups: Vec<Vec<Check>> = vec![];
				for ch in all {
					let d = std::mem::discriminant(&ch);
					match groups.iter_mut().find(|g| std::mem::discriminant(&g[0]) == d) {
						Some(g) => g.push(ch),
						None => groups.push(vec![ch]),
					}
				}
				for g in groups {
					let mut s = scn.clone();
					s.checks = Checks::Only(g);
					c.push(s);
				}
			}
			Checks::Only(v) if v.len() > 1 => {
				let h = v.len() / 2;
				for part in [&v[..h], &v[h..]] {
					let mut s = scn.clone();
					s.checks = Checks::Only(part.to_vec());
					c.push(s);
				}
			}
			Checks::Only(_) => {
				if scn.pres != PresCfg::plain() {
					let mut s = scn.clone();
					s.pres = PresCfg::plain();
					c.push(s);
				}
			}
		}
		c
	}
}
