//! C16 — container writer output independent of the sink write schedule; sink errors surface.
//! Schedule space: how many bytes each (vectored or plain) write call accepts, `Interrupted` at
//! every call index. Fault space: hard error / `Ok(0)` at every call index.

use crate::container::{self, End, FileSpec, SpecProfile};
use crate::val::Val;
use crate::prng::{Fnv, Rng};
use crate::props::c05::{op_label, shrink_spec};
use crate::runner::{panic_site, Outcome, Prop, Tier};
use crate::simio::{AcceptPlan, IoErrKind, SimSink, SinkCallResult, SinkFault, SinkFaultKind};
use serde_derive::{Deserialize, Serialize};

#[derive(Clone, Debug, Serialize, Deserialize, PartialEq)]
pub struct SinkCfg {
	pub plan: AcceptPlan,
	pub vectored: bool,
	pub faults: Vec<SinkFault>,
	/// the (single, hard) fault hits the first write call of a flush, so nothing of that block reached the sink:
	/// the history is continued on the healed sink and, if every later call returns Ok, the stream must be the baseline
	#[serde(default)]
	pub recover: bool,
	/// every `n`-th sink call over the WHOLE life of the writer reports Interrupted (0 = off): what a signal-heavy
	/// process sees; the number of interruptions grows with the history instead of being one or three
	#[serde(default)]
	pub interrupt_every: u32,
}

#[derive(Clone, Debug, Serialize, Deserialize)]
pub enum Cfgs {
	Enumerate { seed: u64, fault_cap: usize },
	Only(Vec<SinkCfg>),
}

#[derive(Clone, Debug, Serialize, Deserialize)]
pub struct Scn {
	pub spec: FileSpec,
	pub cfgs: Cfgs,
}

pub struct C16;

const FIXED_KS: [usize; 12] = [1, 2, 3, 5, 7, 15, 16, 17, 19, 20, 21, 4096];

struct RunOut {
	accepted: Vec<u8>,
	steps: Vec<container::StepResult>,
	calls: u64,
	stats: crate::simio::SinkStats,
	log: Vec<crate::simio::SinkCall>,
	digest: u64,
	/// number of values whose call had returned Ok after each step
	model_lens: Vec<usize>,
}

fn run_with(spec: &FileSpec, cfg: &SinkCfg, baseline_len: usize, stop_after_fault: bool) -> RunOut {
	let budget = (64 + 8 * baseline_len as u64 + 8 * cfg.faults.len() as u64) * if cfg.interrupt_every > 0 { 2 } else { 1 };
	let sink = SimSink::new(cfg.plan.clone(), cfg.vectored);
	let sink = if cfg.interrupt_every >= 2 { sink.with_interrupt_every(cfg.interrupt_every as u64, 1) } else { sink };
	let sink = sink
		.with_faults(cfg.faults.clone())
		.with_step_budget(budget)
		.keep_log();
	let hard_at: Option<u64> = cfg
		.faults
		.iter()
		.filter(|f| !matches!(f.kind, SinkFaultKind::Interrupted))
		.map(|f| f.at_call)
		.min();
	let mut model_lens = vec![];
	let run = container::run_writer(spec, &sink, |st, model| {
		model_lens.push(model.len());
		// after the call during which a hard fault fired, nothing more is asserted: abandon
		!(stop_after_fault && hard_at.map_or(false, |h| st.sink_calls > h))
	});
	let st = sink.0.borrow();
	RunOut {
		accepted: st.accepted.clone(),
		steps: run.steps,
		calls: st.stats.calls,
		stats: st.stats.clone(),
		log: st.log.clone(),
		digest: 0,
		model_lens,
	}
	.with_digest(sink.digest())
}
impl RunOut {
	fn with_digest(mut self, d: u64) -> Self {
		self.digest = d;
		self
	}
}

fn enumerate_cfgs(spec: &FileSpec, seed: u64, fault_cap: usize, baseline_len: usize) -> Vec<SinkCfg> {
	let mut rng = Rng::from_seed(seed);
	let mut cfgs = vec![];
	for vectored in [true, false] {
		for k in FIXED_KS {
			cfgs.push(SinkCfg {
				plan: AcceptPlan::Fixed(k),
				vectored,
				faults: vec![],
				recover: false,
				interrupt_every: 0,
			});
		}
		cfgs.push(SinkCfg {
			plan: AcceptPlan::Cycle((0..3).map(|_| 1 + rng.usize(40)).collect()),
			vectored,
			faults: vec![],
			recover: false,
				interrupt_every: 0,
		});
		if vectored {
			for n in [1usize, 2] {
				cfgs.push(SinkCfg { plan: AcceptPlan::WholeSlices(n), vectored, faults: vec![], recover: false, interrupt_every: 0 });
			}
		}
	}
	// interruptions all along the writer's life (their number grows with the history)
	for (plan, vectored, every) in [(AcceptPlan::All, true, 2u32), (AcceptPlan::Fixed(1), rng.bool(), 2), (AcceptPlan::Fixed(7), false, 3), (AcceptPlan::Fixed(19), true, 2), (AcceptPlan::Cycle(vec![1 + rng.usize(5), 1 + rng.usize(30)]), rng.bool(), 5)] {
		cfgs.push(SinkCfg { plan, vectored, faults: vec![], recover: false, interrupt_every: every });
	}
	// fault enumeration on two base plans
	let bases = [
		SinkCfg {
			plan: AcceptPlan::All,
			vectored: rng.bool(),
			faults: vec![],
			recover: false,
				interrupt_every: 0,
		},
		SinkCfg {
			plan: AcceptPlan::Fixed(*rng.pick(&[3usize, 7, 16, 19])),
			vectored: rng.bool(),
			faults: vec![],
			recover: false,
				interrupt_every: 0,
		},
	];
	for base in bases {
		let dry = run_with(spec, &base, baseline_len, false);
		let n = dry.calls;
		let idxs: Vec<u64> = if n as usize <= fault_cap {
			(0..n).collect()
		} else {
			// all of the first 24 calls (header + first blocks), then evenly spread
			let mut v: Vec<u64> = (0..24.min(n)).collect();
			let rest = fault_cap - v.len();
			for j in 0..rest as u64 {
				v.push(24 + j * (n - 24) / rest as u64);
			}
			v.dedup();
			v
		};
		for &i in &idxs {
			cfgs.push(SinkCfg {
				faults: vec![SinkFault {
					at_call: i,
					kind: SinkFaultKind::Interrupted,
				}],
				..base.clone()
			});
		}
		// an interruption followed, later in the same history, by a hard fault
		for w in idxs.windows(2).step_by(5) {
			cfgs.push(SinkCfg {
				faults: vec![
					SinkFault { at_call: w[0], kind: SinkFaultKind::Interrupted },
					SinkFault { at_call: w[1] + 1, kind: SinkFaultKind::Hard(IoErrKind::Other) },
				],
				..base.clone()
			});
		}
		// bursts of 3
		for &i in idxs.iter().step_by(3) {
			cfgs.push(SinkCfg {
				faults: (0..3)
					.map(|j| SinkFault {
						at_call: i + j,
						kind: SinkFaultKind::Interrupted,
					})
					.collect(),
				..base.clone()
			});
		}
		for &i in &idxs {
			// (the KIND of the error is a dimension too: only `Interrupted` means "try again"; WouldBlock and TimedOut are
			// errors like any other to a blocking writer)
			let kind = match i % 6 {
				0 => SinkFaultKind::Hard(IoErrKind::Other),
				1 => SinkFaultKind::Hard(IoErrKind::BrokenPipe),
				2 => SinkFaultKind::Hard(IoErrKind::StorageFull),
				3 => SinkFaultKind::Hard(IoErrKind::WouldBlock),
				4 => SinkFaultKind::Hard(IoErrKind::TimedOut),
				_ => SinkFaultKind::Zero,
			};
			cfgs.push(SinkCfg {
				faults: vec![SinkFault { at_call: i, kind }],
				..base.clone()
			});
			// and the complementary kind at the same index
			let kind2 = if matches!(kind, SinkFaultKind::Zero) { SinkFaultKind::Hard(IoErrKind::Other) } else { SinkFaultKind::Zero };
			cfgs.push(SinkCfg {
				faults: vec![SinkFault { at_call: i, kind: kind2 }],
				..base.clone()
			});
		}
	}
	// clean failures: with an accept-everything vectored sink every call after the header is the first (and only)
	// write of a block flush; failing it leaves nothing of that block in the sink
	let dry = run_with(
		spec,
		&SinkCfg { plan: AcceptPlan::All, vectored: true, faults: vec![], recover: false, interrupt_every: 0 },
		baseline_len,
		false,
	);
	for i in 1..dry.calls.min(24) {
		for kind in [SinkFaultKind::Hard(IoErrKind::Other), SinkFaultKind::Zero] {
			cfgs.push(SinkCfg {
				plan: AcceptPlan::All,
				vectored: true,
				faults: vec![SinkFault { at_call: i, kind }],
				recover: true,
				interrupt_every: 0,
			});
		}
	}
	cfgs
}

fn call_class(log: &[crate::simio::SinkCall], call: u64, header_len: usize) -> &'static str {
	match log.get(call as usize) {
		None => "beyond-log",
		Some(c) => {
			if c.at_offset < header_len {
				"file-header"
			} else if c.vectored && c.offered.len() == 3 {
				if c.offered[0] > 0 {
					"block-header"
				} else if c.offered[1] > 0 {
					"block-data"
				} else {
					"block-sync"
				}
			} else {
				"plain-write"
			}
		}
	}
}

impl Prop for C16 {
	type Scn = Scn;
	fn id(&self) -> &'static str {
		"C16"
	}
	fn level(&self) -> &'static str {
		"fault_enumeration"
	}
	fn rule(&self) -> &'static str {
		"A scenario is a writer history without failing values (fixed sync marker) executed once against an accept-everything sink (baseline stream B), then against every configuration of the enumerated space: \
		 Fixed(k) for k in {1,2,3,5,7,15,16,17,19,20,21,4096} and a random 3-cycle, each with a sink that implements write_vectored (accepting across slice boundaries) and one that only implements write; \
		 on two base plans: ErrorKind::Interrupted at EVERY sink call index (singly and in bursts of 3); a hard error (Other | BrokenPipe | StorageFull | WouldBlock | TimedOut) and Ok(0) at EVERY sink call index (capped at fault_cap indices per base plan on long streams, then the first 24 + evenly spread). \
		 An evaluation is one complete history executed against one sink configuration. Non-trivial = a partial accept or a fault fired; distinct = distinct (fault kind, class of the call hit: file-header | block-header | block-data | block-sync | plain-write, vectored?, slice in which the first partial accept ended, outcome). Vectored sinks also accept exactly n whole slices; an Interrupted at i may be followed by a hard error at j > i; after a CLEAN hard failure (nothing of the call accepted) the history goes on against the recovered sink and the final stream must be the baseline's or, judged by the reference parser, a valid file holding every other call's values in order plus all or none of the failed call's (serialize_all excepted: it stops at the failing item by contract). Five more configurations interrupt every 2nd / 3rd / 5th sink call over the WHOLE life of the writer (the number of interruptions grows with the history: hundreds to thousands). One workload in forty is a LONG history (250-400 values, a block per value or every few values). One workload in twenty-five is a big-blob workload (block sizes across the 8 / 32 / 64 KiB marks, contents from all zeros to incompressible). One workload in twelve carries a block of several KiB."
	}
	fn assumptions(&self) -> Vec<String> {
		vec![
			"after the API call during which a hard error / Ok(0) fired nothing is asserted and the history is abandoned (the property says nothing about the file after a hard error); the writer is leaked rather than dropped because Writer::drop deliberately panics in debug builds when its flush fails".into(),
			"faults are not scheduled inside Drop (drop cannot return an error); histories used for hard faults end with into_inner".into(),
			"codecs are deterministic for a fixed input and level, so the baseline stream is well defined".into(),
		]
	}
	fn expected_probes(&self) -> Vec<&'static str> {
		vec!["big_blob_workload", "long_history", "fault_hard_error_fired", "fault_interrupted_fired", "fault_zero_accept_fired", "sink_partial_accepts", "sink_partial_accept_across_vectored_slices", "clean_sink_failure_then_history_continued"]
	}
	fn budget(&self, tier: Tier) -> (u64, u64) {
		match tier {
			Tier::Quick => (4_000, 90),
			Tier::Thorough => (150_000, 1200),
		}
	}

	fn gen(&self, rng: &mut Rng, tier: Tier, _run: u64) -> Scn {
		let profile = SpecProfile {
			poison: false,
			max_ops: 8,
			heavy_codecs: rng.chance(1, 10),
			big_blobs: false,
			min_width_one: false,
			push_ops: true,
			scale: 1,
		};
		let mut spec = if rng.chance(1, 25) {
			// blocks whose (compressed) size lands on or next to the encoders' 32 KiB / 64 KiB buffer marks and the 8 KiB
			// marks: whatever is written differently when a buffer is exactly full goes through every sink schedule too
			let codec = container::gen_codec(rng, true);
			container::gen_blob_spec(rng, codec)
		} else if rng.chance(1, 40) {
			// a LONG history (hundreds of blocks): partial accepts and interruptions all along the writer's life
			container::gen_long_spec(rng, &SpecProfile { heavy_codecs: false, ..profile }, 400)
		} else {
			container::gen_filespec(rng, &profile)
		};
		spec.end = End::IntoInner;
		// one workload in twelve carries a block of several KiB, so that a write takes many partial accepts
		if !spec.ops.iter().any(|o| matches!(o, container::Op::Many { .. } | container::Op::Blob { .. })) && (spec.schema == crate::ast::Ty::Bytes || rng.chance(1, 12)) {
			spec.schema = crate::ast::Ty::Bytes;
			spec.ops = vec![
				container::Op::Blob { len: 100 + rng.below(300) as u32, seed: rng.next_u64(), compressible: true },
				container::Op::Blob { len: 3000 + rng.below(14_000) as u32, seed: rng.next_u64(), compressible: rng.bool() },
				container::Op::FinishBlock,
				container::Op::Blob { len: rng.below(50) as u32, seed: rng.next_u64(), compressible: false },
			];
		}
		let spec_is_long = spec.ops.iter().any(|o| matches!(o, container::Op::Many { .. })) || spec.ops.iter().any(|o| matches!(o, container::Op::Blob { len, .. } if *len > 20_000));
		Scn {
			spec,
			cfgs: Cfgs::Enumerate {
				seed: rng.next_u64(),
				fault_cap: if spec_is_long { 40 } else if tier == Tier::Quick { 150 } else { 600 },
			},
		}
	}

	fn exec(&self, scn: &Scn) -> Outcome {
		let mut out = Outcome::default();
		container::count_scale(&scn.spec, &mut out);
		if scn.spec.ops.iter().any(|o| matches!(o, container::Op::Blob { len, .. } if *len > 20_000)) {
			out.count("big_blob_workload", 1);
		}
		let expanded = scn.spec.expanded();
		let spec = &*expanded;
		let base_cfg = SinkCfg {
			plan: AcceptPlan::All,
			vectored: true,
			faults: vec![],
			recover: false,
				interrupt_every: 0,
		};
		let base = run_with(spec, &base_cfg, 1 << 20, false);
		out.evals += 1;
		out.steps += base.calls;
		for st in &base.steps {
			if let Some(p) = &st.panicked {
				out.fail(format!("C16:baseline-panic:{}", panic_site(p)), p.clone());
				return out;
			}
			if let Err(e) = &st.res {
				out.fail(
					if e.starts_with("HARNESS") || e.starts_with("PRE-SERIALIZE") { "harness:C16:baseline".to_string() } else { format!("C16:baseline-failed:{}", spec.codec.name()) },
					e.clone(),
				);
				return out;
			}
		}
		let b = &base.accepted;
		// "the one a sink that accepts everything would get" is meant to be the file of the values written: a baseline
		// that is not that (bytes of an EARLIER writer on the same configuration in front of the header, say — data
		// that was silently dropped there and silently turns up here) would make every comparison below vacuous
		{
			let env = crate::ast::Env::build(&spec.schema);
			let model = container::run_writer(spec, &SimSink::all(), |_, _| true).model;
			match crate::ref_container::parse(b).and_then(|p| p.decode_values(&env, &spec.schema)) {
				Ok(vals) if vals == model => {}
				Ok(vals) => {
					out.fail(format!("C16:accept-everything-stream-is-not-the-file-written:{}", spec.codec.name()), format!("the reference parser finds {} values in it, {} were written", vals.len(), model.len()));
					return out;
				}
				Err(e) => {
					out.fail(format!("C16:accept-everything-stream-is-not-the-file-written:{}", spec.codec.name()), e);
					return out;
				}
			}
		}
		let header_len = base.steps.first().map_or(0, |s| s.accepted_len);
		let cfgs = match &scn.cfgs {
			Cfgs::Enumerate { seed, fault_cap } => enumerate_cfgs(spec, *seed, *fault_cap, b.len()),
			Cfgs::Only(c) => c.clone(),
		};
		let mut digest = Fnv::new();
		digest.bytes(b);
		for cfg in &cfgs {
			let hard = cfg.faults.iter().find(|f| !matches!(f.kind, SinkFaultKind::Interrupted)).copied();
			let r = run_with(spec, cfg, b.len(), !cfg.recover);
			out.evals += 1;
			out.steps += r.calls;
			digest.u64(r.digest);
			out.count("sink_partial_accepts", r.stats.partial_accepts);
			out.count("sink_partial_accept_across_vectored_slices", r.stats.cross_slice_partial);
			out.count("fault_interrupted_fired", r.stats.interrupted_fired);
			out.count("fault_hard_error_fired", r.stats.hard_fired);
			out.count("fault_zero_accept_fired", r.stats.zero_fired);
			let label = format!("{}{}{:?}", cfg.plan.label(), if cfg.vectored { ":vectored:" } else { ":plain:" }, cfg.faults);
			if r.stats.budget_exhausted {
				out.fail("C16:write-loop-does-not-advance", format!("sink step budget exhausted with {label}"));
				break;
			}
			if let Some(p) = r.steps.iter().find_map(|s| s.panicked.as_ref()) {
				out.fail(format!("C16:panic:{}", panic_site(p)), format!("{label}: {p}"));
				break;
			}
			let fired = r.stats.hard_fired + r.stats.zero_fired > 0;
			// signature
			if r.stats.partial_accepts > 0 || r.stats.interrupted_fired > 0 || fired {
				let mut sig = Fnv::new();
				sig.str("c16").u64(cfg.vectored as u64);
				if let Some(f) = cfg.faults.first() {
					sig.str(match f.kind {
						SinkFaultKind::Interrupted => "intr",
						SinkFaultKind::Hard(_) => "hard",
						SinkFaultKind::Zero => "zero",
					});
					sig.str(call_class(&r.log, f.at_call, header_len)).u64(cfg.faults.len() as u64);
				} else {
					sig.str("nofault");
				}
				// slice in which the first partial accept ended
				if let Some(c) = r.log.iter().find(|c| matches!(c.result, SinkCallResult::Accepted(n) if n < c.offered.iter().sum::<usize>())) {
					if let SinkCallResult::Accepted(n) = c.result {
						let mut left = n;
						let mut idx = 0;
						for (i, o) in c.offered.iter().enumerate() {
							if left < *o {
								idx = i;
								break;
							}
							left -= o;
						}
						sig.u64(idx as u64).u64((left.min(20)) as u64).u64(c.offered.len() as u64);
					}
				}
				sig.u64(spec.codec.idx());
				out.sig(sig);
			}
			match hard {
				None => {
					// schedule-only configuration: everything Ok, stream identical
					if let Some((i, st)) = r.steps.iter().enumerate().find(|(_, s)| s.res.is_err()) {
						let op = if st.op == usize::MAX { "build" } else { op_label(spec.ops.get(st.op)) };
						out.fail(
							format!("C16:call-failed-without-hard-fault:{op}"),
							format!("{label}: step {i} returned {:?}", st.res),
						);
						break;
					}
					if r.accepted != *b {
						let first = r.accepted.iter().zip(b.iter()).position(|(x, y)| x != y).unwrap_or(r.accepted.len().min(b.len()));
						out.fail(
							if r.accepted.len() < b.len() && b.starts_with(&r.accepted) {
								"C16:stream-differs:bytes-lost"
							} else if r.accepted.len() > b.len() && r.accepted.starts_with(b) {
								"C16:stream-differs:bytes-duplicated-or-appended"
							} else {
								"C16:stream-differs"
							},
							format!("{label}: sink got {} bytes, baseline has {}; first difference at offset {first} ({})", r.accepted.len(), b.len(), if first < header_len { "file header" } else { "blocks" }),
						);
						break;
					}
				}
				Some(f) => {
					if !fired {
						// fault index beyond the calls made
						continue;
					}
					// the step during which the fault fired
					let Some((i, st)) = r.steps.iter().enumerate().find(|(_, s)| s.sink_calls > f.at_call) else {
						out.fail("harness:C16:fault-step-not-found", label);
						break;
					};
					let op = if st.op == usize::MAX {
						"build"
					} else if st.op == spec.ops.len() {
						"into_inner"
					} else {
						op_label(spec.ops.get(st.op))
					};
					if st.res.is_ok() {
						out.fail(
							format!(
								"C16:sink-error-swallowed:{}:{op}",
								match f.kind {
									SinkFaultKind::Zero => "zero-accept",
									_ => "hard-error",
								}
							),
							format!("{label}: step {i} ({op}) returned Ok although the sink failed during it"),
						);
						break;
					}
					// (serialize_all stops at the item during which the sink failed: the remaining items are never
					// attempted, so the baseline is not the reference for that op)
					if cfg.recover && op != "serialize-all" && r.stats.len_at_first_hard_fault.map_or(false, |l| l >= header_len) {
						out.count("clean_sink_failure_then_history_continued", 1);
						let later = &r.steps[i + 1..];
						if !later.is_empty() && later.iter().all(|s| s.res.is_ok()) && r.accepted != *b {
							// The failing call returned its error: whether the value(s) it carried were kept (and written
							// by a later call) or dropped with it is the implementation's choice, and so is where blocks
							// are then cut. What must hold: the sink ends up with a valid file holding every value of
							// every OTHER call, in order, plus all or none of the failing call's own.
							let env = crate::ast::Env::build(&spec.schema);
							let judge = |bytes: &[u8]| crate::ref_container::parse(bytes).and_then(|p| p.decode_values(&env, &spec.schema));
							let verdict = match (judge(b), judge(&r.accepted)) {
								(Err(e), _) => Err(format!("HARNESS: baseline does not parse: {e}")),
								(Ok(_), Err(e)) => Err(format!("not a valid container file: {e}")),
								(Ok(base_vals), Ok(got)) => {
									let lo = if i == 0 { 0 } else { base.model_lens.get(i - 1).copied().unwrap_or(0) };
									let hi = base.model_lens.get(i).copied().unwrap_or(lo).max(lo);
									let without: Vec<&Val> = base_vals[..lo.min(base_vals.len())].iter().chain(base_vals[hi.min(base_vals.len())..].iter()).collect();
									if got == base_vals || got.iter().collect::<Vec<_>>() == without {
										Ok(())
									} else {
										Err(format!("holds {} values; the baseline holds {} ({} of them from the failing call)", got.len(), base_vals.len(), hi - lo))
									}
								}
							};
							if let Err(why) = verdict {
								out.fail(
									if why.starts_with("HARNESS") { "harness:C16:baseline" } else { "C16:stream-corrupted-after-clean-sink-failure" },
									format!("{label}: step {i} ({op}) reported the sink error (nothing of that block had been accepted), every later call returned Ok, yet the sink ends up with a stream that is {why}"),
								);
								break;
							}
							out.count("recovered_stream_differs_in_block_layout_only_or_drops_the_failed_call", 1);
						}
					}
					// what the sink held when the fault fired (a consumed writer's Drop may retry its flush afterwards)
					let upto = r.stats.len_at_first_hard_fault.unwrap_or(r.accepted.len()).min(r.accepted.len());
					if !b.starts_with(&r.accepted[..upto]) {
						out.fail(
							"C16:bytes-before-error-not-a-prefix",
							format!("{label}: {upto} bytes were accepted before the error and they are not a prefix of the baseline"),
						);
						break;
					}
				}
			}
		}
		out.digest = digest.get();
		out
	}

	fn shrink(&self, scn: &Scn) -> Vec<Scn> {
		let mut c = vec![];
		if let Cfgs::Enumerate { seed, fault_cap } = &scn.cfgs {
			let base_cfg = SinkCfg {
				plan: AcceptPlan::All,
				vectored: true,
				faults: vec![],
				recover: false,
				interrupt_every: 0,
			};
			let expanded = scn.spec.expanded();
			let base = run_with(&expanded, &base_cfg, 1 << 20, false);
			for cfg in enumerate_cfgs(&expanded, *seed, *fault_cap, base.accepted.len()) {
				c.push(Scn {
					spec: scn.spec.clone(),
					cfgs: Cfgs::Only(vec![cfg]),
				});
			}
			return c;
		}
		for spec in shrink_spec(&scn.spec) {
			if spec.end == End::IntoInner {
				c.push(Scn { spec, cfgs: scn.cfgs.clone() });
			}
		}
		if let Cfgs::Only(v) = &scn.cfgs {
			if let Some(cfg) = v.first() {
				// earlier fault index / simpler plan
				for f in &cfg.faults {
					if f.at_call > 0 {
						for nc in [0, f.at_call / 2, f.at_call - 1] {
							let mut ncfg = cfg.clone();
							ncfg.faults = vec![SinkFault { at_call: nc, kind: f.kind }];
							c.push(Scn {
								spec: scn.spec.clone(),
								cfgs: Cfgs::Only(vec![ncfg]),
							});
						}
					}
				}
				if cfg.plan != AcceptPlan::All {
					let mut ncfg = cfg.clone();
					ncfg.plan = AcceptPlan::All;
					c.push(Scn {
						spec: scn.spec.clone(),
						cfgs: Cfgs::Only(vec![ncfg]),
					});
				}
			}
		}
		c
	}
}
