//! C14 — reusing a serializer configuration never changes output; failures leave it clean.
//! Histories of successful and failing serializations on ONE `SerializerConfig`; the failure is
//! injected at every serde-call index (caller fault) and after every sink byte (sink fault).

use crate::ast::{self, Env, GenCfg, Ty};
use crate::prng::{Fnv, Rng};
use crate::runner::{catch, panic_site, Outcome, Prop, Tier};
use crate::simalloc;
use crate::simio::{AcceptPlan, IoErrKind, SimSink, SinkFault, SinkFaultKind};
use crate::val::{self, Poison, PoisonKind, PresCfg, Val, ValCfg};
use crate::world;
use serde_avro_fast::ser::SerializerConfig;
use serde_derive::{Deserialize, Serialize};

#[derive(Clone, Debug, Serialize, Deserialize, PartialEq)]
pub struct Attempt {
	pub val: Val,
	pub pres: PresCfg,
	/// entry point that uses the configuration: 0 = to_datum, 1 = to_single_object, 2 = a container Writer built on it,
	/// 3 = a SerializerState used directly for two datums in a row
	#[serde(default)]
	pub via: u8,
	/// at this serde call the caller's Serialize impl serializes SOMETHING ELSE (the first probe, through a fresh
	/// configuration of a second instance of the schema; odd values: a presentation that fails half-way) before it
	/// goes on: re-entrancy. Nothing the two serializations share may show in either output.
	#[serde(default)]
	pub reenter_at: Option<u32>,
	/// (entry point 2) codec and level of the container Writer built on the configuration, and how many times the
	/// value is written through it: successive Writers on one configuration differ in codec and level
	#[serde(default)]
	pub writer: Option<(crate::ref_container::Codec, u8)>,
}

thread_local! {
	static REENTER_REPORT: std::cell::RefCell<Option<String>> = const { std::cell::RefCell::new(None) };
}

/// one attempt through the chosen entry point; returns (result, serde calls, poison fired, poison depth)
thread_local! {
	static WRITER_KNOBS: std::cell::Cell<Option<(crate::ref_container::Codec, u8)>> = const { std::cell::Cell::new(None) };
}

fn attempt_via(
	via: u8,
	cfg: &mut SerializerConfig<'_>,
	env: &Env,
	ty: &Ty,
	val: &Val,
	pres: PresCfg,
	poison: Option<Poison>,
	sink: SimSink,
) -> (Result<(), String>, usize, bool, u32) {
	use crate::val::{PresCtx, Presented};
	match via {
		1 => {
			let ctx = PresCtx::new(env, pres, poison);
			let r = serde_avro_fast::to_single_object(&Presented::new(val, ty, &ctx), sink, cfg);
			(r.map(|_| ()).map_err(|e| e.to_string()), ctx.calls.get(), ctx.poison_fired.get(), ctx.poison_depth.get())
		}
		2 => {
			use serde_avro_fast::object_container_file_encoding::WriterBuilder;
			let ctx = PresCtx::new(env, pres, poison);
			let knobs = WRITER_KNOBS.with(|k| k.get());
			let b = WriterBuilder::new(cfg).sync_marker([7; 16]);
			let b = match knobs {
				Some((codec, _)) => b.compression(crate::container::to_crate_compression(codec)),
				None => b,
			};
			let built = b.build(sink);
			let r = match built {
				Err(e) => Err(e.to_string()),
				Ok(mut w) => {
					let mut r1 = w.serialize(Presented::new(val, ty, &ctx)).map_err(|e| e.to_string());
					// (the same value again and again: data in which compression levels make a difference)
					for _ in 1..knobs.map_or(1, |k| k.1.max(1)) {
						if r1.is_err() {
							break;
						}
						let ctx2 = PresCtx::new(env, pres, None);
						r1 = w.serialize(Presented::new(val, ty, &ctx2)).map_err(|e| e.to_string());
					}
					// into_inner rather than drop: a failing flush inside Drop panics on purpose in debug builds
					let r2 = w.into_inner().map(|_| ()).map_err(|e| e.to_string());
					r1.and(r2)
				}
			};
			(r, ctx.calls.get(), ctx.poison_fired.get(), ctx.poison_depth.get())
		}
		3 => {
			// the serializer state used directly (what to_datum does inside), for TWO values on one state: the value, and
			// the value once more — the state, its writer and the configuration go from one datum to the next
			use serde::Serialize;
			let ctx = PresCtx::new(env, pres, poison);
			let mut st = serde_avro_fast::ser::SerializerState::from_writer(sink, cfg);
			let r1 = Presented::new(val, ty, &ctx).serialize(st.serializer()).map_err(|e| e.to_string());
			let r = match r1 {
				Ok(()) => {
					let ctx2 = PresCtx::new(env, pres, None);
					let r2 = Presented::new(val, ty, &ctx2).serialize(st.serializer()).map_err(|e| e.to_string());
					let _ = st.writer_mut();
					let _w = st.into_writer();
					r2
				}
				Err(e) => Err(e),
			};
			(r, ctx.calls.get(), ctx.poison_fired.get(), ctx.poison_depth.get())
		}
		_ => {
			let (r, calls, fired, depth) = world::crate_encode_to(cfg, env, ty, val, pres, poison, sink);
			(r.map(|_| ()), calls, fired, depth)
		}
	}
}

#[derive(Clone, Debug, Serialize, Deserialize, PartialEq)]
pub enum FaultSpec {
	Poison(Poison),
	/// hard sink error after exactly `after_bytes` bytes were accepted
	SinkError { after_bytes: u64, kind: IoErrKind },
}

#[derive(Clone, Debug, Serialize, Deserialize, PartialEq)]
pub struct FaultPoint {
	pub attempt: usize,
	pub fault: FaultSpec,
}

#[derive(Clone, Debug, Serialize, Deserialize)]
pub enum Points {
	Enumerate { seed: u64, cap: usize },
	/// each entry is one history: the listed faults are applied to their attempts
	Only(Vec<Vec<FaultPoint>>),
	/// ONE long history: the attempts are cycled through `rounds` times on one configuration; each attempt fails
	/// with probability `fail_pct` % (kind and place drawn from `seed`); probes after some failures, every 64
	/// attempts and at the end. (Attempt indices of the derived fault points count through the whole history.)
	Long { seed: u64, rounds: u32, fail_pct: u8 },
}

#[derive(Clone, Debug, Serialize, Deserialize)]
pub struct Scn {
	pub schema: Ty,
	pub allow_slow: bool,
	pub attempts: Vec<Attempt>,
	pub probes: Vec<Attempt>,
	pub points: Points,
}

pub struct C14;

const KINDS: [PoisonKind; 5] = [PoisonKind::Err, PoisonKind::WrongType, PoisonKind::MissingField, PoisonKind::DupField, PoisonKind::AbortMidSeq];

struct Clean {
	bytes: Vec<u8>,
	calls: usize,
}

fn new_config<'s>(schema: &'s serde_avro_fast::Schema, allow_slow: bool) -> SerializerConfig<'s> {
	let mut c = SerializerConfig::new(schema);
	if allow_slow {
		c.allow_slow_sequence_to_bytes();
	}
	c
}

impl Prop for C14 {
	type Scn = Scn;
	fn id(&self) -> &'static str {
		"C14"
	}
	fn level(&self) -> &'static str {
		"fault_enumeration"
	}
	fn rule(&self) -> &'static str {
		"A scenario is a schema biased to nested records (inside records / arrays / unions) and bytes presented as length-less sequences, a history of <= 8 serialization attempts on ONE SerializerConfig (each with its own presentation: field permutation at every nesting level, omitted nullable fields, struct vs map, seq with/without length) and two probes. \
		 Enumerated fault space: for every attempt, a caller failure of each kind {Err, wrong type, missing field, duplicated field, sequence abandoned without end()} at EVERY serde-call index, and a hard sink error after EVERY accepted byte count (sink plan Fixed(1)); plus sampled histories with several failing attempts (capped per scenario, sampled above the cap). \
		 After the failing attempt and after the last attempt both probes are serialized on the used configuration and must be byte-identical to a fresh configuration's output; successful attempts are compared with their fresh-configuration bytes; nothing may panic (debug assertions are on, so the crate's pool assertions are live). \
		 An evaluation is one attempt or probe serialization. Distinct = distinct (fault kind, nesting depth of the failure, attempt outcome, out-of-order presentation?, probe allocation-count bucket = pool state). One scenario in forty is ONE long history instead of the enumeration: the attempts are cycled through 40-1600 times on one configuration, 5-100 % of them failing at a drawn point (caller failure of a drawn kind, or sink error after a drawn byte count), with probes after a quarter of the failures, every 64 attempts and at the end. One attempt in five is RE-ENTRANT: at a drawn serde call the caller's Serialize impl serializes the first probe (or first a presentation of it that fails half-way) through a fresh configuration of another instance of the schema, then goes on; neither output may differ from a fresh configuration's. Values are presented through the canonical serde calls or (per-node coin) the other calls the crate documents as equivalent (collect_str, char, other integer widths, integers for decimals, tuples, struct variants, Some(v) ...); container Writers built on the configuration (entry point 2) differ in codec and level from attempt to attempt and write their value up to 40 times; a third of the schemas put decimals on a fixed wider than 16 bytes; one scenario in forty is deliberately large-scale (hundreds of reordered fields, long arrays, deep lists)."
	}
	fn assumptions(&self) -> Vec<String> {
		vec![
			"harness built with debug-assertions=true and overflow-checks=true so that the crate's internal consistency assertions are live".into(),
			"values conform to the schema; the only failures are the injected ones".into(),
		]
	}
	fn expected_probes(&self) -> Vec<&'static str> {
		vec!["long_history", "caller_failure_err_fired", "caller_failure_wrong_type_fired", "caller_failure_missing_field_fired", "caller_failure_duplicate_field_fired", "caller_failure_abandoned_sequence_fired", "sink_hard_error_fired", "failure_inside_nested_record_with_out_of_order_presentation", "failure_with_buffered_byte_sequences_in_play"]
	}
	fn budget(&self, tier: Tier) -> (u64, u64) {
		match tier {
			Tier::Quick => (30_000, 90),
			Tier::Thorough => (600_000, 1200),
		}
	}

	fn gen(&self, rng: &mut Rng, tier: Tier, _run: u64) -> Scn {
		let cfg = GenCfg {
			max_depth: 2 + rng.below(3) as u32,
			logical: rng.chance(1, 3),
			recursion: rng.chance(1, 3),
			decimals: rng.chance(1, 3),
			max_fields: 2 + rng.below(5) as u32,
			record_bias: true,
			wide_decimal_fixed: rng.chance(1, 3),
		};
		// root is a record most of the time
		let mut schema = ast::gen_schema(rng, cfg);
		for _ in 0..8 {
			if matches!(schema, Ty::Record { .. }) {
				break;
			}
			schema = ast::gen_schema(rng, cfg);
		}
		let mut scale = None;
		if rng.chance(1, 40) {
			// deliberately large-scale: hundreds of (reordered, buffered) fields, long arrays, deep lists
			let (ty, sc) = ast::gen_scale_schema(rng, true);
			schema = ty;
			scale = Some(sc);
		}
		let env = Env::build(&schema);
		let vcfg = ValCfg { max_len: 1 + rng.usize(4), max_depth: 4, budget: 10 + rng.below(40) as i32, str_boost: 0, scale: None }.with_scale(scale);
		let allow_slow = rng.bool();
		let n = if scale.is_some() { 1 + rng.usize(3) } else { 1 + rng.usize(6) };
		let mut attempts = vec![];
		for _ in 0..n {
			let v = val::gen_val(rng, &env, &schema, &vcfg);
			let mut pres = PresCfg::random(rng, allow_slow);
			pres.reorder = rng.chance(4, 5);
			if pres.bytes_as_seq {
				pres.len_none = rng.chance(3, 4);
			}
			let via = match rng.below(7) {
				0 => 1,
				1 => 2,
				2 => 3,
				_ => 0,
			};
			let reenter_at = if rng.chance(1, 5) { Some(rng.below(24) as u32) } else { None };
			let writer = if via == 2 && rng.chance(2, 3) {
				let codec = match rng.below(4) {
					0 => crate::ref_container::Codec::Null,
					1 => crate::ref_container::Codec::Deflate(*rng.pick(&[1u8, 6, 9])),
					2 => crate::ref_container::Codec::Snappy,
					_ => crate::ref_container::Codec::Zstd(*rng.pick(&[1u8, 3, 9])),
				};
				Some((codec, *rng.pick(&[1u8, 1, 12, 40])))
			} else {
				None
			};
			attempts.push(Attempt { val: v, pres, via, reenter_at, writer });
		}
		let last = attempts.last().unwrap().val.clone();
		let probes = vec![
			Attempt { val: last.clone(), pres: PresCfg::plain(), via: 0, reenter_at: None, writer: None },
			Attempt {
				val: val::gen_val(rng, &env, &schema, &vcfg),
				pres: PresCfg { seed: rng.next_u64(), reorder: true, omit_nullable: false, record_as_map: false, len_none: allow_slow, bytes_as_seq: allow_slow, alt_calls: false },
				via: 0,
				reenter_at: None,
				writer: None,
			},
		];
		if scale.is_none() && rng.chance(1, 40) {
			// ONE long history on one configuration: hundreds of attempts, many of them failing
			let rounds = (40 + rng.below(360) as u32) / attempts.len() as u32 + 1;
			let rounds = if rng.chance(1, 4) { rounds * 4 } else { rounds };
			return Scn { schema, allow_slow, attempts, probes, points: Points::Long { seed: rng.next_u64(), rounds, fail_pct: *rng.pick(&[5u8, 30, 30, 60, 100]) } };
		}
		Scn {
			schema,
			allow_slow,
			attempts,
			probes,
			points: Points::Enumerate { seed: rng.next_u64(), cap: if tier == Tier::Quick { 400 } else { 1500 } },
		}
	}

	fn exec(&self, scn: &Scn) -> Outcome {
		let mut out = Outcome::default();
		{
			let mut classes = vec![];
			scn.attempts.iter().for_each(|a| crate::val::scale_classes(&a.val, &mut classes));
			classes.into_iter().for_each(|c| out.count(c, 1));
		}
		let env = Env::build(&scn.schema);
		let schema = match world::parse_schema(&scn.schema) {
			Ok(s) => s,
			Err(e) => {
				out.fail("harness:C14:schema", e);
				return out;
			}
		};
		// fresh-configuration reference outputs
		let mut clean: Vec<Clean> = vec![];
		for (i, a) in scn.attempts.iter().enumerate() {
			let mut cfg = new_config(&schema, scn.allow_slow);
			let clean_sink = SimSink::all();
			WRITER_KNOBS.with(|k| k.set(a.writer));
			let r = catch(|| attempt_via(a.via, &mut cfg, &env, &scn.schema, &a.val, a.pres, None, clean_sink.clone()));
			out.evals += 1;
			match r {
				Ok((Ok(()), calls, _, _)) => clean.push(Clean { bytes: clean_sink.accepted(), calls }),
				Ok((Err(e), ..)) => {
					// a conforming value that does not serialize on a fresh configuration is C01/C02's business
					out.count("skipped_attempt_fails_on_fresh_config", 1);
					let _ = (i, e);
					return out;
				}
				Err(p) => {
					out.fail(format!("C14:panic-on-fresh-config:{}", panic_site(&p)), p);
					return out;
				}
			}
		}
		let mut probe_fresh: Vec<Vec<u8>> = vec![];
		for pr in &scn.probes {
			let mut cfg = new_config(&schema, scn.allow_slow);
			match catch(|| world::crate_encode_to(&mut cfg, &env, &scn.schema, &pr.val, pr.pres, None, Vec::new())) {
				Ok((Ok(b), ..)) => probe_fresh.push(b),
				Ok((Err(_), ..)) => {
					out.count("skipped_probe_fails_on_fresh_config", 1);
					return out;
				}
				Err(p) => {
					out.fail(format!("C14:panic-on-fresh-config:{}", panic_site(&p)), p);
					return out;
				}
			}
		}
		let len = scn.attempts.len();
		let mut total = len;
		let mut long: Option<u64> = None;
		let histories: Vec<Vec<FaultPoint>> = match &scn.points {
			Points::Only(h) => h.clone(),
			Points::Enumerate { seed, cap } => build_histories(*seed, *cap, &clean),
			Points::Long { seed, rounds, fail_pct } => {
				total = len * *rounds as usize;
				long = Some(*seed);
				out.count("long_history", 1);
				let mut rng = Rng::from_seed(*seed);
				let mut h = vec![];
				for j in 0..total {
					let c = &clean[j % len];
					// (drawn for every attempt, so that a shorter history is a prefix of a longer one)
					let coin = rng.below(100) < *fail_pct as u64;
					let fault = if rng.chance(2, 3) || c.bytes.is_empty() {
						FaultSpec::Poison(Poison { at_call: rng.usize(c.calls.max(1)), kind: *rng.pick(&KINDS) })
					} else {
						FaultSpec::SinkError { after_bytes: rng.below(c.bytes.len() as u64 + 1), kind: IoErrKind::Other }
					};
					if coin {
						h.push(FaultPoint { attempt: j, fault });
					}
				}
				vec![h]
			}
		};
		let mut digest = Fnv::new();
		'hist: for h in &histories {
			let mut cfg = new_config(&schema, scn.allow_slow);
			let mut next_fault = 0usize;
			for j in 0..total {
				let a = &scn.attempts[j % len];
				let clean = |k: usize| &clean[k % len];
				let fault = if long.is_some() {
					// (sorted by attempt)
					while next_fault < h.len() && h[next_fault].attempt < j {
						next_fault += 1;
					}
					h.get(next_fault).filter(|f| f.attempt == j).map(|f| &f.fault)
				} else {
					h.iter().find(|f| f.attempt == j).map(|f| &f.fault)
				};
				let (poison, sink) = match fault {
					None => (None, SimSink::all()),
					Some(FaultSpec::Poison(p)) => (Some(*p), SimSink::all()),
					Some(FaultSpec::SinkError { after_bytes, kind }) => (
						None,
						SimSink::new(AcceptPlan::Fixed(1), false).with_faults(vec![SinkFault { at_call: *after_bytes, kind: SinkFaultKind::Hard(*kind) }]),
					),
				};
				if let Some(at) = a.reenter_at {
					// the nested serialization: the first probe (odd call indices: a presentation of it that fails half-way)
					// through a fresh configuration of its own instance of the schema
					let (ty2, pv, ppres, want) = (scn.schema.clone(), scn.probes[0].val.clone(), scn.probes[0].pres, probe_fresh[0].clone());
					crate::val::REENTER.with(|r| {
						*r.borrow_mut() = Some((
							at as usize,
							Box::new(move || {
								let env2 = Env::build(&ty2);
								let Ok(schema2) = world::parse_schema(&ty2) else { return };
								let mut c2 = SerializerConfig::new(&schema2);
								if at % 2 == 1 {
									let _ = world::crate_encode_to(&mut c2, &env2, &ty2, &pv, ppres, Some(Poison { at_call: (at as usize / 2) % 7, kind: PoisonKind::Err }), Vec::new());
								}
								match world::crate_encode_to(&mut c2, &env2, &ty2, &pv, ppres, None, Vec::new()).0 {
									Ok(b) if b == want => {}
									other => REENTER_REPORT.with(|rep| *rep.borrow_mut() = Some(format!("nested serialization gave {:?}", other.map(|b| b.len()))))
								}
							}),
						))
					});
					out.count("reentrant_serialization_armed", 1);
				}
				WRITER_KNOBS.with(|k| k.set(a.writer));
				let r = catch(|| attempt_via(a.via, &mut cfg, &env, &scn.schema, &a.val, a.pres, poison, sink.clone()));
				crate::val::REENTER.with(|r| *r.borrow_mut() = None);
				out.evals += 1;
				out.steps += sink.calls();
				digest.u64(sink.digest());
				if let Some(rep) = REENTER_REPORT.with(|rep| rep.borrow_mut().take()) {
					out.fail("C14:reentrant-serialization-differs-from-fresh-config", format!("attempt {j}: {rep}"));
					break 'hist;
				}
				let what = || if long.is_some() { format!("long history ({} faults before this point), attempt {j} of {total}", h.iter().filter(|f| f.attempt < j).count()) } else { format!("history {h:?}, attempt {j}") };
				let (res, fired, depth) = match r {
					Ok((res, _calls, fired, depth)) => (res, fired, depth),
					Err(p) => {
						out.fail(format!("C14:panic:during-attempt:{}", panic_site(&p)), format!("{}: {p}", what()));
						break 'hist;
					}
				};
				let sink_fired = sink.stats().hard_fired > 0;
				match fault {
					Some(FaultSpec::Poison(p)) if fired => out.count(
						match p.kind {
							PoisonKind::Err => "caller_failure_err_fired",
							PoisonKind::WrongType => "caller_failure_wrong_type_fired",
							PoisonKind::MissingField => "caller_failure_missing_field_fired",
							PoisonKind::DupField => "caller_failure_duplicate_field_fired",
							PoisonKind::AbortMidSeq => "caller_failure_abandoned_sequence_fired",
						},
						1,
					),
					Some(FaultSpec::SinkError { .. }) if sink_fired => out.count("sink_hard_error_fired", 1),
					_ => {}
				}
				if fired && depth >= 2 && a.pres.reorder {
					out.count("failure_inside_nested_record_with_out_of_order_presentation", 1);
				}
				if fired && a.pres.bytes_as_seq && a.pres.len_none {
					out.count("failure_with_buffered_byte_sequences_in_play", 1);
				}
				if res.is_ok() {
					// a successful attempt must equal its fresh-configuration bytes
					if sink.accepted() != clean(j).bytes {
						out.fail(
							"C14:successful-attempt-differs-from-fresh-config",
							format!("{}: got {} bytes, fresh configuration gives {}", what(), sink.accepted_len(), clean(j).bytes.len()),
						);
						break 'hist;
					}
				}
				let failed_now = res.is_err();
				// probe after a failing attempt and after the last attempt
				let probe_now = match long {
					None => failed_now || j + 1 == total,
					Some(seed) => (failed_now && (seed ^ j as u64).wrapping_mul(0x9E37_79B9_7F4A_7C15) >> 62 == 0) || j % 64 == 63 || j + 1 == total,
				};
				if probe_now {
					for (pi, pr) in scn.probes.iter().enumerate() {
						let guard = simalloc::MeasureGuard::start();
						let r = catch(|| world::crate_encode_to(&mut cfg, &env, &scn.schema, &pr.val, pr.pres, None, Vec::new()));
						let allocs = guard.stats().allocs;
						drop(guard);
						out.evals += 1;
						let mut sig = Fnv::new();
						sig.str("c14");
						match fault {
							Some(FaultSpec::Poison(p)) => sig.u64(1 + p.kind as u64).u64(depth.min(4) as u64).u64(fired as u64),
							Some(FaultSpec::SinkError { .. }) => sig.u64(10).u64(sink_fired as u64),
							None => sig.u64(0),
						};
						sig.u64(failed_now as u64).u64(a.pres.reorder as u64).u64(pi as u64).u64(allocs.min(6));
						out.sig(sig);
						match r {
							Err(p) => {
								out.fail(format!("C14:panic:during-probe:{}", panic_site(&p)), format!("{}, probe {pi}: {p}", what()));
								break 'hist;
							}
							Ok((Err(e), ..)) => {
								out.fail("C14:probe-fails-on-used-config", format!("{}, probe {pi}: {e}", what()));
								break 'hist;
							}
							Ok((Ok(b), ..)) => {
								if b != probe_fresh[pi] {
									let first = b.iter().zip(&probe_fresh[pi]).position(|(x, y)| x != y);
									out.fail(
										"C14:probe-bytes-differ-from-fresh-config",
										format!("{}, probe {pi}: {} bytes vs {} on a fresh configuration, first difference at {first:?}", what(), b.len(), probe_fresh[pi].len()),
									);
									break 'hist;
								}
							}
						}
					}
				}
			}
		}
		out.digest = digest.get();
		out
	}

	fn shrink(&self, scn: &Scn) -> Vec<Scn> {
		let mut c = vec![];
		if let Points::Long { seed, rounds, fail_pct } = &scn.points {
			for r in [rounds / 2, rounds - rounds / 8 - 1, rounds - 1] {
				if r > 0 && r < *rounds {
					let mut s = scn.clone();
					s.points = Points::Long { seed: *seed, rounds: r, fail_pct: *fail_pct };
					c.push(s);
				}
			}
			if scn.probes.len() > 1 {
				for i in 0..scn.probes.len() {
					let mut s = scn.clone();
					s.probes = vec![scn.probes[i].clone()];
					c.push(s);
				}
			}
			return c;
		}
		if let Points::Enumerate { .. } = &scn.points {
			// re-derive the histories by executing nothing: we need the enumeration, which depends on clean runs;
			// cheap trick: run exec's enumeration through a helper scenario per attempt and kind is overkill —
			// instead bisect over the cap: histories are enumerated deterministically, so wrap them explicitly
			if let Some(h) = enumerate_histories(scn) {
				// halves first
				let mid = h.len() / 2;
				for part in [&h[..mid], &h[mid..]] {
					let mut s = scn.clone();
					s.points = Points::Only(part.to_vec());
					c.push(s);
				}
			}
			return c;
		}
		if let Points::Only(h) = &scn.points {
			if h.len() > 1 {
				let mid = h.len() / 2;
				for part in [&h[..mid], &h[mid..]] {
					let mut s = scn.clone();
					s.points = Points::Only(part.to_vec());
					c.push(s);
				}
				return c;
			}
			// single history: drop attempts after / before, simplify presentations
			if let Some(hist) = h.first() {
				let max_attempt = hist.iter().map(|f| f.attempt).max().unwrap_or(0);
				if scn.attempts.len() > max_attempt + 1 {
					let mut s = scn.clone();
					s.attempts.truncate(max_attempt + 1);
					c.push(s);
				}
				for i in 0..scn.attempts.len() {
					if hist.iter().all(|f| f.attempt != i) && scn.attempts.len() > 1 {
						let mut s = scn.clone();
						s.attempts.remove(i);
						let nh: Vec<FaultPoint> = hist.iter().map(|f| FaultPoint { attempt: if f.attempt > i { f.attempt - 1 } else { f.attempt }, fault: f.fault.clone() }).collect();
						s.points = Points::Only(vec![nh]);
						c.push(s);
					}
				}
				if hist.len() > 1 {
					for i in 0..hist.len() {
						let mut nh = hist.clone();
						nh.remove(i);
						let mut s = scn.clone();
						s.points = Points::Only(vec![nh]);
						c.push(s);
					}
				}
				if scn.probes.len() > 1 {
					for i in 0..scn.probes.len() {
						let mut s = scn.clone();
						s.probes = vec![scn.probes[i].clone()];
						c.push(s);
					}
				}
				for (i, a) in scn.attempts.iter().enumerate() {
					if a.pres != PresCfg::plain() && hist.iter().all(|f| f.attempt != i) {
						let mut s = scn.clone();
						s.attempts[i].pres = PresCfg::plain();
						c.push(s);
					}
				}
			}
		}
		c
	}
}

/// The enumeration `exec` would use, made explicit (needs the clean call / byte counts)
fn enumerate_histories(scn: &Scn) -> Option<Vec<Vec<FaultPoint>>> {
	let Points::Enumerate { seed, cap } = &scn.points else { return None };
	let env = Env::build(&scn.schema);
	let schema = world::parse_schema(&scn.schema).ok()?;
	let mut clean = vec![];
	for a in &scn.attempts {
		let mut cfg = new_config(&schema, scn.allow_slow);
		let clean_sink = SimSink::all();
		match catch(|| attempt_via(a.via, &mut cfg, &env, &scn.schema, &a.val, a.pres, None, clean_sink.clone())) {
			Ok((Ok(()), calls, _, _)) => clean.push(Clean { bytes: clean_sink.accepted(), calls }),
			_ => return None,
		}
	}
	Some(build_histories(*seed, *cap, &clean))
}

fn build_histories(seed: u64, cap: usize, clean: &[Clean]) -> Vec<Vec<FaultPoint>> {
	let mut rng = Rng::from_seed(seed);
	let mut all: Vec<Vec<FaultPoint>> = vec![vec![]];
	for (j, c) in clean.iter().enumerate() {
		for call in 0..c.calls {
			for k in KINDS {
				all.push(vec![FaultPoint { attempt: j, fault: FaultSpec::Poison(Poison { at_call: call, kind: k }) }]);
			}
		}
		for n in 0..=c.bytes.len() as u64 {
			let kind = *rng.pick(&[IoErrKind::Other, IoErrKind::BrokenPipe, IoErrKind::StorageFull]);
			all.push(vec![FaultPoint { attempt: j, fault: FaultSpec::SinkError { after_bytes: n, kind } }]);
		}
	}
	if all.len() > cap {
		// keep the clean history, sample the rest
		let mut rest: Vec<Vec<FaultPoint>> = all.split_off(1);
		rng.shuffle(&mut rest);
		rest.truncate(cap - 1);
		all.extend(rest);
	}
	// histories with several failing attempts
	for _ in 0..(cap / 10).max(4) {
		let mut h = vec![];
		for (j, c) in clean.iter().enumerate() {
			if rng.chance(1, 2) {
				let fault = if rng.chance(2, 3) || c.bytes.is_empty() {
					FaultSpec::Poison(Poison { at_call: rng.usize(c.calls.max(1)), kind: *rng.pick(&KINDS) })
				} else {
					FaultSpec::SinkError { after_bytes: rng.below(c.bytes.len() as u64 + 1), kind: IoErrKind::Other }
				};
				h.push(FaultPoint { attempt: j, fault });
			}
		}
		all.push(h);
	}
	all
}
