//! C17 — container reader on damaged files: genuine prefix only, corruption detected.
//! Fault space per file: every truncation offset (= every point at which a writer could have
//! crashed), targeted rewrites of count / size / sync / CRC, single-byte damage, I/O errors at
//! every source call index.

use crate::ast::Env;
use crate::container::{self, End, FileSpec, Item, RKind, ReadRun, SpecProfile};
use crate::prng::{Fnv, Rng};
use crate::props::c06::BSpec;
use crate::ref_container::{self, Codec, Parsed, WriteOpts};
use crate::ref_datum::{encode_long, Layout};
use crate::runner::{panic_site, Outcome, Prop, Tier};
use crate::simio::{IoErrKind, RefillPlan, SimSink, SourceFault};
use crate::val::{self, Val, ValCfg};
use crate::world::ReaderKind;
use serde_derive::{Deserialize, Serialize};

#[derive(Clone, Debug, Serialize, Deserialize)]
pub enum FileSrc {
	Crate(FileSpec),
	Ref(BSpec),
}

#[derive(Clone, Debug, Serialize, Deserialize, PartialEq)]
pub enum Fault {
	Truncate { at: usize },
	/// byte `idx` (0..16) of the sync marker that ends block `block` is xored with `xor`
	Sync { block: usize, idx: usize, xor: u8 },
	Count { block: usize, new: i64 },
	Size { block: usize, new: i64 },
	SnappyCrc { block: usize, idx: usize, xor: u8 },
	SnappyPayload { block: usize, off: usize, xor: u8 },
	Byte { off: usize, xor: u8 },
	/// two faults at once: the file is cut at `at` AND byte `off` (< `at`) is damaged
	TruncateAndByte { at: usize, off: usize, xor: u8 },
	Io { at_call: u64, kind: IoErrKind },
	/// `n` consecutive source calls fail with `Interrupted`
	IoBurst { at_call: u64, n: u64 },
}

#[derive(Clone, Debug, Serialize, Deserialize, PartialEq)]
pub struct Case {
	pub fault: Fault,
	pub reader: RKind,
}

#[derive(Clone, Debug, Serialize, Deserialize)]
pub enum Cases {
	Enumerate { seed: u64, cap: usize },
	Only(Vec<Case>),
}

#[derive(Clone, Debug, Serialize, Deserialize)]
pub struct Scn {
	pub file: FileSrc,
	pub cases: Cases,
}

pub struct C17;

fn reader_kinds() -> Vec<RKind> {
	vec![
		RKind::Slice,
		RKind::Sim(ReaderKind::Direct(RefillPlan::Whole)),
		RKind::Sim(ReaderKind::Direct(RefillPlan::Fixed(1))),
		RKind::Sim(ReaderKind::Direct(RefillPlan::Fixed(3))),
		RKind::Sim(ReaderKind::BufReader { cap: 7, plan: RefillPlan::Whole }),
	]
}

fn sim_kinds() -> Vec<RKind> {
	vec![
		RKind::Sim(ReaderKind::Direct(RefillPlan::Whole)),
		RKind::Sim(ReaderKind::Direct(RefillPlan::Fixed(1))),
		RKind::Sim(ReaderKind::Direct(RefillPlan::Fixed(5))),
		RKind::Sim(ReaderKind::BufReader { cap: 16, plan: RefillPlan::Fixed(9) }),
	]
}

pub fn build_file(src: &FileSrc) -> Option<(Vec<u8>, crate::ast::Ty)> {
	match src {
		FileSrc::Crate(spec) => {
			let expanded = spec.expanded();
			let spec = &*expanded;
			let sink = SimSink::all();
			let run = container::run_writer(spec, &sink, |_, _| true);
			if run.steps.iter().any(|s| s.res.is_err()) {
				return None;
			}
			Some((sink.accepted(), spec.schema.clone()))
		}
		FileSrc::Ref(b) => {
			let expanded = b.expanded();
			let b = &*expanded;
			let env = Env::build(&b.schema);
			let json = crate::ast::to_json(&b.schema);
			ref_container::write(&env, &b.schema, &json, b.codec, b.sync, &b.user_meta, &b.values, &b.opts)
				.ok()
				.map(|f| (f, b.schema.clone()))
		}
	}
}

fn enumerate_cases(file: &[u8], parsed: &Parsed, seed: u64, cap: usize, clean_calls: &[(RKind, u64)]) -> Vec<Case> {
	let mut rng = Rng::from_seed(seed);
	let mut cases = vec![];
	let kinds = reader_kinds();
	// LONG files: the per-block fault classes are enumerated for a sample of the blocks (both ends, around the 256th,
	// a few drawn), and fewer cases overall (each one reads hundreds of blocks)
	let nb = parsed.blocks.len();
	let long = nb > 24;
	let cap = if long { cap.min(120) } else { cap };
	let sel: Vec<usize> = if !long {
		(0..nb).collect()
	} else {
		let mut v = vec![0, 1, nb - 2, nb - 1];
		v.extend([254usize, 255, 256, 257].iter().copied().filter(|&i| i < nb));
		for _ in 0..4 {
			v.push(rng.usize(nb));
		}
		v.sort();
		v.dedup();
		v
	};
	// (T) every truncation offset
	let offsets: Vec<usize> = if file.len() <= cap {
		(0..file.len()).collect()
	} else {
		// all offsets inside block headers / the last 24 bytes of each block / file header tail, rest sampled
		let mut v: Vec<usize> = vec![];
		for b in sel.iter().map(|&i| &parsed.blocks[i]) {
			v.extend(b.off..b.payload_off + 2);
			v.extend(b.sync_off.saturating_sub(8)..(b.sync_off + 16).min(file.len()));
		}
		v.extend(parsed.header_len.saturating_sub(20)..parsed.header_len);
		v.extend(0..8);
		while v.len() < cap {
			v.push(rng.usize(file.len()));
		}
		v.sort();
		v.dedup();
		v
	};
	for (i, &at) in offsets.iter().enumerate() {
		// all reader kinds on small files, a rotating pair on larger ones
		if file.len() <= 600 {
			for k in &kinds {
				cases.push(Case { fault: Fault::Truncate { at }, reader: k.clone() });
			}
		} else {
			cases.push(Case { fault: Fault::Truncate { at }, reader: kinds[i % kinds.len()].clone() });
			cases.push(Case { fault: Fault::Truncate { at }, reader: kinds[(i + 2) % kinds.len()].clone() });
		}
	}
	for (bi, b) in sel.iter().map(|&i| (i, &parsed.blocks[i])) {
		// (S) every byte of every trailing sync marker
		for idx in 0..16 {
			let xor = *rng.pick(&[0x01u8, 0x80, 0xff, 0x10]);
			cases.push(Case { fault: Fault::Sync { block: bi, idx, xor }, reader: kinds[(idx + bi) % kinds.len()].clone() });
		}
		// (N) count rewritten
		let c = b.count as i64;
		for new in [c - 1, c + 1, 0, 1 << 40, i64::MAX, -c, -1, i64::MIN] {
			if new != c {
				for k in [&kinds[0], &kinds[1 + (bi % 4)]] {
					cases.push(Case { fault: Fault::Count { block: bi, new }, reader: k.clone() });
				}
				// the iterator adaptors too (what they promise through size_hint() must not come from a damaged count)
				if new > c + 1 {
					cases.push(Case { fault: Fault::Count { block: bi, new }, reader: if bi % 2 == 0 { RKind::BufReaderIter } else { RKind::SliceIter } });
				}
			}
		}
		// (Z) size rewritten
		let s = b.size as i64;
		for new in [s - 1, s + 1, 0, 1 << 40, i64::MAX, -s, -1, i64::MIN] {
			if new != s {
				for k in [&kinds[0], &kinds[1 + ((bi + 1) % 4)]] {
					cases.push(Case { fault: Fault::Size { block: bi, new }, reader: k.clone() });
				}
			}
		}
		// (K) snappy checksum / payload
		if parsed.codec == Codec::Snappy && b.size >= 4 {
			for idx in 0..4 {
				cases.push(Case { fault: Fault::SnappyCrc { block: bi, idx, xor: 1 << rng.below(8) }, reader: kinds[idx % kinds.len()].clone() });
			}
			for _ in 0..4 {
				if b.size > 4 {
					cases.push(Case {
						fault: Fault::SnappyPayload { block: bi, off: rng.usize(b.size - 4), xor: 1 << rng.below(8) },
						reader: kinds[rng.usize(kinds.len())].clone(),
					});
				}
			}
		}
	}
	// (B) one byte damaged at every offset (small files) or at sampled offsets
	let byte_offsets: Vec<usize> = if file.len() <= cap / 2 { (0..file.len()).collect() } else { (0..256.min(cap / 2)).map(|_| rng.usize(file.len())).collect() };
	for (i, off) in byte_offsets.into_iter().enumerate() {
		let xor = if i % 2 == 0 { 1 << rng.below(8) } else { rng.range(1, 255) as u8 };
		cases.push(Case { fault: Fault::Byte { off, xor }, reader: kinds[i % kinds.len()].clone() });
	}
	// (T+B) two faults at once: cut AND one damaged byte before the cut (the universal oracle: no panic, terminates,
	// end of stream is final; when the damaged byte lies inside a payload the counts the reader goes by are genuine)
	for i in 0..if long { 12 } else { 40 } {
		if file.len() < 8 {
			break;
		}
		let at = 2 + rng.usize(file.len() - 2);
		let off = rng.usize(at);
		cases.push(Case { fault: Fault::TruncateAndByte { at, off, xor: 1 << rng.below(8) }, reader: kinds[i % kinds.len()].clone() });
	}
	// (B') the last bytes of every payload (codec trailers: snappy CRC, deflate end-of-stream bits, zstd / xz / bzip2
	// checksums) and its first bytes (frame headers), under EVERY reader kind
	for b in sel.iter().map(|&i| &parsed.blocks[i]).take(if long { 3 } else { usize::MAX }) {
		let tail = b.sync_off.saturating_sub(12).max(b.payload_off)..b.sync_off;
		let head = b.payload_off..(b.payload_off + 8).min(b.sync_off);
		for off in tail.chain(head) {
			for k in &kinds {
				cases.push(Case { fault: Fault::Byte { off, xor: 1 << rng.below(8) }, reader: k.clone() });
			}
		}
	}
	// (E) I/O error at every source call index
	for (k, calls) in clean_calls {
		let idxs: Vec<u64> = if (*calls as usize) <= cap / 2 { (0..*calls).collect() } else { (0..(cap / 2) as u64).map(|j| j * calls / (cap / 2) as u64).collect() };
		for i in idxs {
			let kind = match i % 5 {
				0 => IoErrKind::Other,
				1 => IoErrKind::UnexpectedEof,
				3 => IoErrKind::WouldBlock,
				4 => IoErrKind::TimedOut,
				_ => IoErrKind::Interrupted,
			};
			cases.push(Case { fault: Fault::Io { at_call: i, kind }, reader: k.clone() });
			if i % 4 == 1 {
				cases.push(Case { fault: Fault::IoBurst { at_call: i, n: 2 + i % 3 }, reader: k.clone() });
			}
		}
	}
	if long || file.len() > 256 * 1024 {
		// every case reads hundreds of blocks (or hundreds of KiB): a sample of the cases, and no byte-at-a-time
		// sources on large files (the I/O-fault cases keep the reader kind their call indices were measured with)
		rng.shuffle(&mut cases);
		cases.truncate(160);
		if file.len() > 16 * 1024 {
			for c in cases.iter_mut() {
				if matches!(c.fault, Fault::Io { .. } | Fault::IoBurst { .. }) {
					continue;
				}
				if let RKind::Sim(ReaderKind::Direct(RefillPlan::Fixed(k))) = &c.reader {
					c.reader = RKind::Sim(ReaderKind::Direct(RefillPlan::Fixed(if *k == 1 { 61 } else { 997 })));
				}
			}
		}
	}
	cases
}

fn rewrite_header(file: &[u8], parsed: &Parsed, block: usize, count: Option<i64>, size: Option<i64>) -> Vec<u8> {
	let b = &parsed.blocks[block];
	let mut out = file[..b.off].to_vec();
	out.extend_from_slice(&encode_long(count.unwrap_or(b.count as i64)));
	out.extend_from_slice(&encode_long(size.unwrap_or(b.size as i64)));
	out.extend_from_slice(&file[b.payload_off..]);
	out
}

fn region_of(parsed: &Parsed, off: usize) -> &'static str {
	if off < 4 {
		return "magic";
	}
	if off < parsed.header_len - 16 {
		return "meta";
	}
	if off < parsed.header_len {
		return "header-sync";
	}
	for b in &parsed.blocks {
		if off < b.off + b.count_len {
			return "block-count";
		}
		if off < b.payload_off {
			return "block-size";
		}
		if off < b.sync_off {
			return "payload";
		}
		if off < b.sync_off + 16 {
			return "block-sync";
		}
	}
	"eof"
}

/// universal oracle: no panic, terminates, `Ok(None)` is sticky
fn universal(r: &ReadRun, what: &str, counts_genuine: bool, out: &mut Outcome) -> bool {
	if let Some(p) = &r.panicked {
		out.fail(format!("C17:panic:{}", panic_site(p)), format!("{what}: {p}"));
		return false;
	}
	if let Some(l) = &r.size_hint_lie {
		// `collect::<Vec<_>>()` / `extend` reserve the lower bound before pulling the items: a bound taken from a
		// damaged count is a capacity-overflow panic or an allocation failure waiting for its caller
		out.fail("C17:iterator-size-hint-exceeds-what-follows", format!("{what}: {l}"));
		return false;
	}
	if r.call_budget_exhausted {
		if counts_genuine {
			out.fail("C17:endless-stream", format!("{what}: call budget exhausted, shape {}", r.shape_class()));
			return false;
		}
		// a corrupted count / size may legitimately declare more objects than were written
		out.count("corrupted_file_declares_more_objects_than_budget", 1);
	}
	if let Some(st) = &r.source {
		if st.budget_exhausted {
			out.fail("C17:endless-loop-on-source", format!("{what}: source step budget exhausted"));
			return false;
		}
		if !st.contract_violations.is_empty() {
			out.fail("C17:bufread-contract", format!("{what}: {}", st.contract_violations[0]));
			return false;
		}
	}
	let mut seen_none = false;
	for it in &r.items {
		match it {
			Item::None => seen_none = true,
			_ if seen_none => {
				out.fail("C17:stream-continues-after-end-of-stream", format!("{what}: shape {}", r.shape()));
				return false;
			}
			_ => {}
		}
	}
	true
}

/// values yielded before the first error, and what follows
fn split(r: &ReadRun) -> (Vec<&Val>, usize, usize) {
	let mut before = vec![];
	let mut after_vals = 0;
	let mut errs = r.ctor_err.is_some() as usize;
	for it in &r.items {
		match it {
			Item::Val(v) => {
				if errs == 0 {
					before.push(v)
				} else {
					after_vals += 1
				}
			}
			Item::Err { .. } => errs += 1,
			Item::None => {}
		}
	}
	(before, errs, after_vals)
}

fn is_prefix(got: &[&Val], orig: &[Val]) -> bool {
	got.len() <= orig.len() && got.iter().zip(orig).all(|(a, b)| *a == b)
}

impl Prop for C17 {
	type Scn = Scn;
	fn id(&self) -> &'static str {
		"C17"
	}
	fn level(&self) -> &'static str {
		"fault_enumeration"
	}
	fn rule(&self) -> &'static str {
		"A scenario is one valid container file (written by the real writer or by the reference writer; all six codecs; 1-12 values of width >= 1 byte in 1-5 blocks) and the enumerated fault space of that file: \
		 (T) truncation at EVERY byte offset x reader kinds {slice, SimSource Whole, Fixed(1), Fixed(3), BufReader(7)}; (S) every byte of every trailing sync marker damaged; \
		 (N) every block's object count rewritten to count-1, count+1, 0, 2^40, i64::MAX, -count, -1, i64::MIN (varint re-encoded); (Z) the same for the byte size; (K) snappy: each CRC byte and sampled payload bytes damaged; \
		 (B) one byte xored at every offset (sampled above the cap); (T+B) forty times two faults at once: the file cut AND one byte before the cut damaged; (E) an I/O error of kind Other | UnexpectedEof | Interrupted | WouldBlock | TimedOut at EVERY source call index of four stream reader kinds. \
		 An evaluation is one complete read of one damaged file (or one faulty source). Every case is non-trivial (a fault is always applied); distinct = distinct (fault kind, file region hit, codec, reader kind class, result shape class such as 'VEN'). One file in 60 is LONG (250-1200 blocks, or more than 65 535 objects in one block, or — reference-written — a run of up to 20 000 consecutive blocks without objects): the per-block fault classes are then enumerated for a sample of the blocks (both ends, around the 256th, four drawn) and 160 cases are drawn from the whole enumeration. One file in 25 carries a value of 10-140 KB (sizes around 64 KiB included); damaged counts are also read through the iterator adaptors, which are held to the size_hint contract; a damaged byte inside a payload leaves the declared counts genuine, so the reader must then reach the end of the stream within the call budget."
	}
	fn assumptions(&self) -> Vec<String> {
		vec![
			"the driver calls deserialize_next until three consecutive Ok(None) or declared objects + 2*blocks + 8 calls".into(),
			"count / size oracles are applied to files whose values are at least one byte wide (DESIGN §7.3)".into(),
			"a CRC-32 collision on a damaged snappy block (2^-32) would be reported as a violation; the PRNG value is fixed so the run is repeatable".into(),
			"Interrupted on the source may be absorbed (read_exact, io::copy) or surface as an I/O error; both are accepted".into(),
		]
	}
	fn expected_probes(&self) -> Vec<&'static str> {
		vec!["long_file_of_many_blocks", "long_file_block_above_65535_objects", "long_file_run_of_blocks_without_objects", "fault_truncate", "fault_sync_byte", "fault_count_rewrite", "fault_size_rewrite", "fault_snappy_crc", "fault_snappy_payload", "fault_single_byte", "io_fault_fired", "io_error_surfaced", "io_interrupted_absorbed"]
	}
	fn budget(&self, tier: Tier) -> (u64, u64) {
		match tier {
			Tier::Quick => (2_800, 90),
			Tier::Thorough => (80_000, 1200),
		}
	}

	fn gen(&self, rng: &mut Rng, tier: Tier, run: u64) -> Scn {
		let profile = SpecProfile {
			poison: false,
			max_ops: 7,
			heavy_codecs: true,
			big_blobs: false,
			min_width_one: true,
			push_ops: true,
			scale: 1,
		};
		if rng.chance(1, 60) {
			// LONG files: hundreds of blocks, more than 65 535 objects in one block, long runs of empty blocks
			let file = if rng.bool() {
				let mut spec = container::gen_long_spec(rng, &SpecProfile { heavy_codecs: false, ..profile }, 140_000);
				spec.end = End::IntoInner;
				FileSrc::Crate(spec)
			} else {
				FileSrc::Ref(crate::props::c06::gen_long_bspec(rng, true, 140_000))
			};
			return Scn { file, cases: Cases::Enumerate { seed: rng.next_u64(), cap: if tier == Tier::Quick { 500 } else { 3000 } } };
		}
		let file = if run % 3 != 2 {
			let mut spec = container::gen_filespec(rng, &profile);
			if rng.chance(1, 25) {
				// a few larger files (tens of KiB)
				let len = if rng.bool() { 10_000 + rng.below(60_000) as u32 } else { *rng.pick(&[65_530u32, 65_536, 65_537, 65_545, 66_000, 70_000, 100_000, 140_000]) };
				// (blobs need the `bytes` schema: the workload is replaced, the file-level settings are kept)
				spec.schema = crate::ast::Ty::Bytes;
				spec.ops = vec![
					container::Op::Blob { len: rng.below(40) as u32, seed: rng.next_u64(), compressible: true },
					container::Op::Blob { len, seed: rng.next_u64(), compressible: rng.bool() },
				];
				if rng.bool() {
					spec.ops.push(container::Op::FinishBlock);
				}
				spec.ops.push(container::Op::Blob { len: 100 + rng.below(9000) as u32, seed: rng.next_u64(), compressible: rng.bool() });
				spec.via_write_all = false;
			}
			spec.end = End::IntoInner;
			FileSrc::Crate(spec)
		} else {
			let (schema, scale) = container::gen_schema_maybe_scale(rng, &profile);
			let env = Env::build(&schema);
			let vcfg = ValCfg { max_len: 1 + rng.usize(6), max_depth: 4, budget: 6 + rng.below(30) as i32, str_boost: 0, scale: None }.with_scale(scale);
			let n = if scale.is_some() { 1 + rng.usize(3) } else { 1 + rng.usize(10) };
			let values: Vec<Val> = (0..n).map(|_| val::gen_val(rng, &env, &schema, &vcfg)).collect();
			FileSrc::Ref(BSpec {
				schema,
				codec: container::gen_codec(rng, true),
				sync: container::gen_sync(rng),
				user_meta: container::gen_user_meta(rng),
				values,
				opts: WriteOpts {
					seed: rng.next_u64(),
					partition: vec![1 + rng.usize(4)],
					datum_layout: Layout { seed: rng.next_u64(), split_blocks: rng.bool(), negative_counts: rng.bool(), pad_varints: 0 },
					..WriteOpts::default()
				},
				many: None,
			})
		};
		Scn {
			file,
			cases: Cases::Enumerate { seed: rng.next_u64(), cap: if tier == Tier::Quick { 500 } else { 3000 } },
		}
	}

	fn exec(&self, scn: &Scn) -> Outcome {
		let mut out = Outcome::default();
		let Some((file, schema)) = build_file(&scn.file) else {
			out.count("skipped_file_could_not_be_written", 1);
			return out;
		};
		let env = Env::build(&schema);
		if file.len() >= 8192 {
			out.count("scale_file_of_8_kib_or_more", 1);
		}
		if file.len() > 65536 {
			out.count("scale_file_above_64_kib", 1);
		}
		let Ok(parsed) = ref_container::parse(&file) else {
			// a writer that produces invalid files is C05/C06's finding, not this property's
			out.count("skipped_file_not_valid", 1);
			return out;
		};
		let Ok(orig) = parsed.decode_values(&env, &schema) else {
			out.count("skipped_file_not_valid", 1);
			return out;
		};
		let wide = container::min_width(&env, &schema, 0) >= 1;
		if parsed.blocks.len() > 24 {
			out.count("long_file_of_many_blocks", 1);
		}
		if parsed.blocks.iter().any(|b| b.count > 65_535) {
			out.count("long_file_block_above_65535_objects", 1);
		}
		if parsed.blocks.windows(2).filter(|w| w[0].count == 0 && w[1].count == 0).count() >= 100 {
			out.count("long_file_run_of_blocks_without_objects", 1);
		}
		let budget = container::call_budget_for(orig.len(), parsed.blocks.len());
		// clean reads: baseline sanity + number of source calls per stream kind
		let mut clean_calls = vec![];
		let stream_kinds = if file.len() > 16 * 1024 && (parsed.blocks.len() > 24 || file.len() > 256 * 1024) {
			vec![
				RKind::Sim(ReaderKind::Direct(RefillPlan::Whole)),
				RKind::Sim(ReaderKind::Direct(RefillPlan::Fixed(61))),
				RKind::Sim(ReaderKind::BufReader { cap: 512, plan: RefillPlan::Fixed(997) }),
			]
		} else {
			sim_kinds()
		};
		for k in stream_kinds {
			let r = container::read_file(&file, &env, &schema, &k, &[], budget);
			out.evals += 1;
			if !r.ended_cleanly() || r.values().len() != orig.len() {
				// an undamaged file must read back (C05/C11's finding); do not judge faults on top of it
				out.count("skipped_clean_read_failed", 1);
				return out;
			}
			// the driver polls twice more after the first Ok(None) (one source call each): a fault there would
			// hit an idle reader after end of stream, which tests nothing
			clean_calls.push((k, r.source.map_or(0, |s| s.calls).saturating_sub(2)));
		}
		let cases = match &scn.cases {
			Cases::Enumerate { seed, cap } => enumerate_cases(&file, &parsed, *seed, *cap, &clean_calls),
			Cases::Only(c) => c.clone(),
		};
		let codec = parsed.codec.name();
		let mut digest = Fnv::new();
		digest.bytes(&file);
		let cum: Vec<usize> = parsed
			.blocks
			.iter()
			.scan(0usize, |a, b| {
				*a += b.count as usize;
				Some(*a)
			})
			.collect();
		for case in &cases {
			let mut faults: Vec<SourceFault> = vec![];
			let (damaged, fkind, region): (Vec<u8>, &'static str, &'static str) = match &case.fault {
				Fault::Truncate { at } => (file[..(*at).min(file.len())].to_vec(), "truncate", region_of(&parsed, *at)),
				Fault::Sync { block, idx, xor } => {
					let Some(b) = parsed.blocks.get(*block) else { continue };
					let mut f = file.clone();
					f[b.sync_off + idx % 16] ^= if *xor == 0 { 1 } else { *xor };
					(f, "sync", "block-sync")
				}
				Fault::Count { block, new } => {
					if *block >= parsed.blocks.len() || !wide {
						continue;
					}
					(rewrite_header(&file, &parsed, *block, Some(*new), None), "count", "block-count")
				}
				Fault::Size { block, new } => {
					if *block >= parsed.blocks.len() || !wide {
						continue;
					}
					(rewrite_header(&file, &parsed, *block, None, Some(*new)), "size", "block-size")
				}
				Fault::SnappyCrc { block, idx, xor } => {
					let Some(b) = parsed.blocks.get(*block) else { continue };
					if parsed.codec != Codec::Snappy || b.size < 4 {
						continue;
					}
					let mut f = file.clone();
					f[b.sync_off - 4 + idx % 4] ^= if *xor == 0 { 1 } else { *xor };
					(f, "snappy-crc", "codec-trailer")
				}
				Fault::SnappyPayload { block, off, xor } => {
					let Some(b) = parsed.blocks.get(*block) else { continue };
					if parsed.codec != Codec::Snappy || b.size <= 4 {
						continue;
					}
					let mut f = file.clone();
					f[b.payload_off + off % (b.size - 4)] ^= if *xor == 0 { 1 } else { *xor };
					(f, "snappy-payload", "payload")
				}
				Fault::Byte { off, xor } => {
					if file.is_empty() {
						continue;
					}
					let o = off % file.len();
					let mut f = file.clone();
					f[o] ^= if *xor == 0 { 1 } else { *xor };
					(f, "byte", region_of(&parsed, o))
				}
				Fault::TruncateAndByte { at, off, xor } => {
					let at = (*at).min(file.len());
					if at == 0 {
						continue;
					}
					let mut f = file[..at].to_vec();
					let o = off % at;
					f[o] ^= if *xor == 0 { 1 } else { *xor };
					(f, "truncate+byte", region_of(&parsed, o))
				}
				Fault::IoBurst { at_call, n } => {
					for j in 0..*n {
						faults.push(SourceFault { at_call: at_call + j, kind: IoErrKind::Interrupted });
					}
					(file.clone(), "io-interrupted-burst", "source-call")
				}
				Fault::Io { at_call, kind } => {
					faults.push(SourceFault { at_call: *at_call, kind: *kind });
					(
						file.clone(),
						match kind {
							IoErrKind::Interrupted => "io-interrupted",
							IoErrKind::UnexpectedEof => "io-unexpected-eof",
							_ => "io-other",
						},
						"source-call",
					)
				}
			};
			if !faults.is_empty() && matches!(case.reader, RKind::Slice | RKind::Cursor) {
				continue;
			}
			let r = container::read_file(&damaged, &env, &schema, &case.reader, &faults, budget);
			out.evals += 1;
			if std::env::var("VERIF_DEBUG").is_ok() {
				eprintln!("case {:?}: shape {} calls {} source {:?} file_len {} items {:?}", case, r.shape(), r.calls, r.source.as_ref().map(|s| (s.calls, s.fill_calls, s.read_calls, s.refills)), damaged.len(), r.items.iter().take(4).collect::<Vec<_>>());
			}
			if let Some(st) = &r.source {
				out.steps += st.calls;
				digest.u64(st.digest);
				out.count("io_fault_fired", st.faults_fired);
			}
			digest.str(&r.shape());
			out.count(
				match fkind {
					"truncate" => "fault_truncate",
					"sync" => "fault_sync_byte",
					"count" => "fault_count_rewrite",
					"size" => "fault_size_rewrite",
					"snappy-crc" => "fault_snappy_crc",
					"snappy-payload" => "fault_snappy_payload",
					"byte" => "fault_single_byte",
					_ => "fault_io_error_scheduled",
				},
				1,
			);
			let mut sig = Fnv::new();
			sig.str(fkind).str(region).u64(parsed.codec.idx()).u64(case.reader.class()).str(&r.shape_class());
			out.sig(sig);
			let what = format!("{:?} via {}", case.fault, case.reader.label());
			// truncation, sync damage and I/O errors leave every count that is read genuine
			// ... and so does a damaged byte INSIDE a block's payload: the object counts and byte sizes the reader goes by
			// sit in front of the payload. (However a value inside fails to decode, the reader must get to the end of the
			// stream within the number of objects the blocks declare.)
			let counts_genuine = matches!(case.fault, Fault::Truncate { .. } | Fault::Sync { .. } | Fault::Io { .. } | Fault::IoBurst { .. } | Fault::SnappyCrc { .. })
				|| matches!(case.fault, Fault::Byte { off, .. } | Fault::TruncateAndByte { off, .. } if parsed.blocks.iter().any(|b| off >= b.payload_off && off < b.sync_off));
			if !universal(&r, &what, counts_genuine, &mut out) {
				break;
			}
			let (before, errs, after_vals) = split(&r);
			let stream = if case.reader == RKind::Slice { "slice" } else { "stream" };
			match &case.fault {
				Fault::Truncate { .. } => {
					if !is_prefix(&r.values(), &orig) {
						out.fail(
							format!("C17:truncated:value-not-written:{codec}:{stream}"),
							format!("{what}: yielded values are not a prefix of the written ones; shape {}", r.shape()),
						);
						break;
					}
					if after_vals > 0 {
						out.fail(format!("C17:truncated:value-after-error:{codec}"), format!("{what}: shape {}", r.shape()));
						break;
					}
					if errs > 1 {
						out.fail(format!("C17:truncated:error-repeated:{codec}:{stream}"), format!("{what}: shape {}", r.shape()));
						break;
					}
				}
				Fault::Sync { block, .. } => {
					let through = cum[*block];
					if errs == 0 {
						out.fail(format!("C17:sync-mismatch-not-reported:{codec}:{stream}"), format!("{what}: shape {}", r.shape()));
						break;
					}
					if !is_prefix(&before, &orig) || before.len() > through {
						out.fail(format!("C17:sync-mismatch:wrong-values:{codec}"), format!("{what}: {} values before the error, block ends at {through}", before.len()));
						break;
					}
					if errs != 1 || after_vals > 0 {
						out.fail(format!("C17:sync-mismatch:not-reported-once-then-end:{codec}:{stream}"), format!("{what}: shape {}", r.shape()));
						break;
					}
				}
				Fault::Count { block, new } => {
					let through = cum[*block];
					if errs == 0 {
						let dir = if *new < parsed.blocks[*block].count as i64 && *new >= 0 { "smaller" } else { "larger-or-invalid" };
						out.fail(format!("C17:count-disagreement-not-reported:{dir}:{codec}:{stream}"), format!("{what}: shape {}", r.shape()));
						break;
					}
					if !is_prefix(&before, &orig) || before.len() > through {
						out.fail(format!("C17:count-disagreement:wrong-values:{codec}"), format!("{what}: {} values before the error, block ends at {through}; shape {}", before.len(), r.shape()));
						break;
					}
				}
				Fault::Size { block, .. } => {
					let through = cum[*block];
					if errs == 0 {
						out.fail(format!("C17:size-disagreement-not-reported:{codec}:{stream}"), format!("{what}: shape {}", r.shape()));
						break;
					}
					if !is_prefix(&before, &orig) || before.len() > through {
						out.fail(format!("C17:size-disagreement:wrong-values:{codec}"), format!("{what}: {} values before the error, block ends at {through}; shape {}", before.len(), r.shape()));
						break;
					}
				}
				Fault::SnappyCrc { block, .. } | Fault::SnappyPayload { block, .. } => {
					let before_block = if *block == 0 { 0 } else { cum[*block - 1] };
					// damage that leaves the block a valid snappy+CRC frame of the same data is not damage
					let b = &parsed.blocks[*block];
					if ref_container::decompress(Codec::Snappy, &damaged[b.payload_off..b.sync_off]).map_or(false, |d| d == b.data) {
						out.count("snappy_damage_harmless", 1);
						continue;
					}
					if errs == 0 {
						out.fail(format!("C17:snappy-checksum-not-reported:{stream}"), format!("{what}: shape {}", r.shape()));
						break;
					}
					if !is_prefix(&before, &orig) || before.len() > before_block {
						out.fail("C17:snappy-damage:values-from-damaged-block", format!("{what}: {} values before the error, damaged block starts at {before_block}", before.len()));
						break;
					}
				}
				Fault::Byte { off, xor: _ } => {
					// specific oracle where the damaged byte lies inside a trailing sync marker
					let o = off % file.len();
					if let Some(bi) = parsed.blocks.iter().position(|b| o >= b.sync_off && o < b.sync_off + 16) {
						if errs == 0 {
							out.fail(format!("C17:sync-mismatch-not-reported:{codec}:{stream}"), format!("{what}: shape {}", r.shape()));
							break;
						}
						if !is_prefix(&before, &orig) || before.len() > cum[bi] {
							out.fail(format!("C17:sync-mismatch:wrong-values:{codec}"), format!("{what}"));
							break;
						}
					}
				}
				Fault::TruncateAndByte { .. } => {
					out.count("fault_truncate_and_damaged_byte", 1);
				}
				Fault::Io { .. } | Fault::IoBurst { .. } => {
					let kind = &match &case.fault {
						Fault::Io { kind, .. } => *kind,
						_ => IoErrKind::Interrupted,
					};
					let fired = r.source.as_ref().map_or(0, |s| s.faults_fired) > 0;
					if !fired {
						continue;
					}
					if !is_prefix(&before, &orig) {
						out.fail(format!("C17:io-error:wrong-values:{codec}"), format!("{what}: shape {}", r.shape()));
						break;
					}
					if errs == 0 {
						// absorbed: only legitimate for Interrupted, and then the stream must be complete
						if *kind != IoErrKind::Interrupted {
							out.fail(format!("C17:io-error-swallowed:{codec}"), format!("{what}: shape {}", r.shape()));
							break;
						}
						if before.len() != orig.len() {
							out.fail(format!("C17:interrupted-read-lost-data:{codec}"), format!("{what}: {} of {} values", before.len(), orig.len()));
							break;
						}
						out.count("io_interrupted_absorbed", 1);
					} else {
						let io_flag = r.ctor_err.is_some() || r.items.iter().any(|i| matches!(i, Item::Err { io: true, .. }));
						if matches!(kind, IoErrKind::WouldBlock | IoErrKind::TimedOut) {
							// (a reader may or may not treat these two kinds as final — a non-blocking caller might be
							// offered a way to go on —; what it may never do is yield a value that was not written: whatever
							// comes out, before or after the error, is a prefix of the original values)
							if !is_prefix(&r.values(), &orig) {
								out.fail(format!("C17:io-error:value-not-written-after-the-error:{codec}"), format!("{what}: shape {}", r.shape()));
								break;
							}
							out.count("io_would_block_or_timed_out_surfaced", 1);
						} else if errs > 1 || after_vals > 0 {
							out.fail(format!("C17:io-error:not-reported-once-then-end:{codec}"), format!("{what}: shape {}", r.shape()));
							break;
						}
						// (whether the error exposes the underlying io::Error is not part of the property: only counted)
						if io_flag {
							out.count("io_error_surfaced_with_io_error_accessor", 1);
						}
						out.count("io_error_surfaced", 1);
					}
				}
			}
		}
		out.digest = digest.get();
		out
	}

	fn shrink(&self, scn: &Scn) -> Vec<Scn> {
		let mut c = vec![];
		if let Cases::Enumerate { seed, cap } = &scn.cases {
			// keep only one case: re-derive the enumeration
			if let Some((file, schema)) = build_file(&scn.file) {
				let env = Env::build(&schema);
				if let Ok(parsed) = ref_container::parse(&file) {
					let budget = container::call_budget_for(parsed.total_count() as usize, parsed.blocks.len());
					let clean: Vec<(RKind, u64)> = sim_kinds()
						.into_iter()
						.map(|k| {
							let r = container::read_file(&file, &env, &schema, &k, &[], budget);
							(k, r.source.map_or(0, |s| s.calls).saturating_sub(2))
						})
						.collect();
					// candidates in chunks: halves first would need ranges; the enumeration is cheap, so try singles
					let all = enumerate_cases(&file, &parsed, *seed, *cap, &clean);
					// group by fault kind to cut the search: first try each whole group
					let mut groups: Vec<Vec<Case>> = vec![];
					for case in all {
						let d = std::mem::discriminant(&case.fault);
						match groups.iter_mut().find(|g| std::mem::discriminant(&g[0].fault) == d) {
							Some(g) => g.push(case),
							None => groups.push(vec![case]),
						}
					}
					for g in groups {
						c.push(Scn { file: scn.file.clone(), cases: Cases::Only(g) });
					}
				}
			}
			return c;
		}
		if let Cases::Only(v) = &scn.cases {
			if v.len() > 1 {
				let h = v.len() / 2;
				c.push(Scn { file: scn.file.clone(), cases: Cases::Only(v[..h].to_vec()) });
				c.push(Scn { file: scn.file.clone(), cases: Cases::Only(v[h..].to_vec()) });
				if v.len() <= 8 {
					for x in v {
						c.push(Scn { file: scn.file.clone(), cases: Cases::Only(vec![x.clone()]) });
					}
				}
				return c;
			}
		}
		// smaller file (fault coordinates are interpreted modulo the new layout)
		match &scn.file {
			FileSrc::Crate(spec) => {
				for s in crate::props::c05::shrink_spec(spec) {
					c.push(Scn { file: FileSrc::Crate(s), cases: scn.cases.clone() });
				}
			}
			FileSrc::Ref(b) => {
				if b.values.len() > 1 {
					for i in 0..b.values.len() {
						let mut nb = b.clone();
						nb.values.remove(i);
						c.push(Scn { file: FileSrc::Ref(nb), cases: scn.cases.clone() });
					}
				}
				if !b.user_meta.is_empty() {
					let mut nb = b.clone();
					nb.user_meta.clear();
					c.push(Scn { file: FileSrc::Ref(nb), cases: scn.cases.clone() });
				}
			}
		}
		c
	}
}
