//! memsim — API histories over the self-referential `Schema` / container `Reader`, executed under a
//! memory-error detector: Miri (whose seeded scheduler also decides every thread interleaving) and,
//! second lane, AddressSanitizer. See /verif/DESIGN.md §4 C10.
//!
//! usage: memsim <workload-seed> <first-history> <n-histories> [threads-only|no-threads]
//! Everything is derived from the workload seed (argv, never the environment).

#[path = "../../sim/src/ast.rs"]
#[allow(dead_code)]
mod ast;
#[path = "../../sim/src/capture.rs"]
#[allow(dead_code)]
mod capture;
#[path = "../../sim/src/prng.rs"]
#[allow(dead_code)]
mod prng;
#[path = "../../sim/src/ref_datum.rs"]
#[allow(dead_code)]
mod ref_datum;
#[path = "../../sim/src/val.rs"]
#[allow(dead_code)]
mod val;

use ast::{Env, GenCfg, Ty};
use capture::{CapCtx, Capture};
use prng::Rng;
use serde::de::DeserializeSeed;
use serde_avro_fast::de::DeserializerState;
use serde_avro_fast::object_container_file_encoding::{Compression, CompressionLevel, Reader, WriterBuilder};
use serde_avro_fast::schema::{
	Array, Decimal, Enum, Fixed, LogicalType, Map, Name, Record, RecordField, RegularType, SchemaKey, SchemaMut, SchemaNode, Union,
};
use serde_avro_fast::ser::SerializerConfig;
use serde_avro_fast::Schema;
use std::borrow::Cow;
use std::collections::HashMap;
use std::sync::Arc;
use val::{PresCfg, PresCtx, Presented, Val, ValCfg};

macro_rules! mismatch {
	($($arg:tt)*) => {{
		println!("MEMSIM-MISMATCH {}", format!($($arg)*));
		std::process::exit(1);
	}};
}

// ---------------------------------------------------------------------------------------------
// sim AST -> node vector for the public builder API

fn build_nodes(ty: &Ty, nodes: &mut Vec<Option<SchemaNode>>, names: &mut HashMap<u16, usize>) -> usize {
	if let Ty::Ref(n) = ty {
		return names[n];
	}
	let idx = nodes.len();
	nodes.push(None);
	let key = |i: usize| SchemaKey::from_idx(i);
	let name = |n: u16| Name::from_fully_qualified_name(ast::type_name(n));
	let node: SchemaNode = match ty {
		Ty::Null => SchemaNode::new(RegularType::Null),
		Ty::Boolean => SchemaNode::new(RegularType::Boolean),
		Ty::Int => SchemaNode::new(RegularType::Int),
		Ty::Long => SchemaNode::new(RegularType::Long),
		Ty::Float => SchemaNode::new(RegularType::Float),
		Ty::Double => SchemaNode::new(RegularType::Double),
		Ty::Bytes => SchemaNode::new(RegularType::Bytes),
		Ty::String => SchemaNode::new(RegularType::String),
		Ty::Array(t) => {
			let i = build_nodes(t, nodes, names);
			Array::new(key(i)).into()
		}
		Ty::Map(t) => {
			let i = build_nodes(t, nodes, names);
			Map::new(key(i)).into()
		}
		Ty::Union(ts) => {
			let v: Vec<SchemaKey> = ts.iter().map(|t| key(build_nodes(t, nodes, names))).collect();
			Union::new(v).into()
		}
		Ty::Record { name: n, fields } => {
			names.insert(*n, idx);
			let f: Vec<RecordField> = fields.iter().map(|(f, t)| RecordField::new(ast::field_name(*f), key(build_nodes(t, nodes, names)))).collect();
			Record::new(name(*n), f).into()
		}
		Ty::Enum { name: n, symbols } => {
			names.insert(*n, idx);
			Enum::new(name(*n), (0..*symbols).map(|i| ast::symbol(i).to_owned()).collect()).into()
		}
		Ty::Fixed { name: n, size } => {
			names.insert(*n, idx);
			Fixed::new(name(*n), *size as usize).into()
		}
		Ty::Ref(_) => unreachable!(),
		Ty::DecimalBytes { scale, precision } => SchemaNode::with_logical_type(RegularType::Bytes, LogicalType::Decimal(Decimal::new(*scale, *precision as usize))),
		Ty::DecimalFixed { name: n, size, scale, precision } => {
			names.insert(*n, idx);
			SchemaNode::with_logical_type(RegularType::Fixed(Fixed::new(name(*n), *size as usize)), LogicalType::Decimal(Decimal::new(*scale, *precision as usize)))
		}
		Ty::BigDecimal => SchemaNode::with_logical_type(RegularType::Bytes, LogicalType::BigDecimal),
		Ty::Uuid => SchemaNode::with_logical_type(RegularType::String, LogicalType::Uuid),
		Ty::Date => SchemaNode::with_logical_type(RegularType::Int, LogicalType::Date),
		Ty::TimeMillis => SchemaNode::with_logical_type(RegularType::Int, LogicalType::TimeMillis),
		Ty::TimeMicros => SchemaNode::with_logical_type(RegularType::Long, LogicalType::TimeMicros),
		Ty::TimestampMillis => SchemaNode::with_logical_type(RegularType::Long, LogicalType::TimestampMillis),
		Ty::TimestampMicros => SchemaNode::with_logical_type(RegularType::Long, LogicalType::TimestampMicros),
		Ty::Duration { name: n } => {
			names.insert(*n, idx);
			SchemaNode::with_logical_type(RegularType::Fixed(Fixed::new(name(*n), 12)), LogicalType::Duration)
		}
	};
	nodes[idx] = Some(node);
	idx
}

/// Same graph, but every primitive leaf kind exists once and is shared by all its users (a DAG, as the derive
/// macro or a hand-written builder would produce)
fn nodes_of_shared(ty: &Ty) -> Vec<SchemaNode> {
	let tree = nodes_of(ty);
	// map each primitive (no logical type) leaf to the first node of that kind
	fn prim_kind(n: &SchemaNode) -> Option<u8> {
		if n.logical_type.is_some() {
			return None;
		}
		Some(match n.type_ {
			RegularType::Null => 0,
			RegularType::Boolean => 1,
			RegularType::Int => 2,
			RegularType::Long => 3,
			RegularType::Float => 4,
			RegularType::Double => 5,
			RegularType::Bytes => 6,
			RegularType::String => 7,
			_ => return None,
		})
	}
	let mut first: [Option<usize>; 8] = [None; 8];
	let mut redirect: Vec<usize> = (0..tree.len()).collect();
	for (i, n) in tree.iter().enumerate() {
		if i == 0 {
			continue;
		}
		if let Some(k) = prim_kind(n) {
			match first[k as usize] {
				None => first[k as usize] = Some(i),
				Some(j) => redirect[i] = j,
			}
		}
	}
	let re = |k: SchemaKey| SchemaKey::from_idx(redirect[k.idx()]);
	tree.into_iter()
		.map(|mut n| {
			match &mut n.type_ {
				RegularType::Array(a) => a.items = re(a.items),
				RegularType::Map(m) => m.values = re(m.values),
				RegularType::Union(u) => u.variants.iter_mut().for_each(|v| *v = re(*v)),
				RegularType::Record(r) => r.fields.iter_mut().for_each(|f| f.type_ = re(f.type_)),
				_ => {}
			}
			n
		})
		.collect()
}

fn nodes_of(ty: &Ty) -> Vec<SchemaNode> {
	let mut nodes = vec![];
	let mut names = HashMap::new();
	build_nodes(ty, &mut nodes, &mut names);
	nodes.into_iter().map(|n| n.expect("node")).collect()
}

// ---------------------------------------------------------------------------------------------

#[derive(Default)]
struct Stats {
	ops: std::collections::BTreeMap<&'static str, u64>,
	sigs: std::collections::BTreeSet<u64>,
}
impl Stats {
	fn op(&mut self, name: &'static str) {
		*self.ops.entry(name).or_default() += 1;
	}
}

enum Holder {
	Plain(Schema),
	Boxed(Box<Schema>),
	Shared(Arc<Schema>),
	InVec(Vec<Schema>, usize),
}
impl Holder {
	fn get(&self) -> &Schema {
		match self {
			Holder::Plain(s) => s,
			Holder::Boxed(s) => s,
			Holder::Shared(s) => s,
			Holder::InVec(v, i) => &v[*i],
		}
	}
}

fn hold(rng: &mut Rng, stats: &mut Stats, schema: Schema, filler: impl Fn() -> Schema) -> Holder {
	match rng.below(5) {
		0 => {
			stats.op("move:plain");
			Holder::Plain(schema)
		}
		1 => {
			stats.op("move:box");
			Holder::Boxed(Box::new(schema))
		}
		2 => {
			stats.op("move:arc");
			Holder::Shared(Arc::new(schema))
		}
		3 => {
			// through another thread and back
			stats.op("move:across-thread");
			let h = std::thread::spawn(move || {
				let b = Box::new(schema);
				let _ = b.json().len();
				b
			});
			Holder::Boxed(h.join().unwrap())
		}
		_ => {
			// a Vec that reallocates while it grows: the Schema structs move, their node storage must not
			stats.op("move:vec-realloc");
			let mut v = Vec::with_capacity(1);
			v.push(schema);
			let n = 1 + rng.usize(3);
			for _ in 0..n {
				v.push(filler());
			}
			Holder::InVec(v, 0)
		}
	}
}

fn gen_small_schema(rng: &mut Rng) -> Ty {
	let corner = ast::corner_schemas();
	if rng.chance(1, 4) {
		return rng.pick(&corner).clone();
	}
	let cfg = GenCfg {
		max_depth: 1 + rng.below(3) as u32,
		logical: rng.chance(1, 2),
		recursion: rng.chance(1, 2),
		decimals: rng.chance(1, 3),
		max_fields: 1 + rng.below(4) as u32,
		record_bias: rng.chance(1, 2),
		wide_decimal_fixed: false,
	};
	ast::gen_schema(rng, cfg)
}

fn gen_one(rng: &mut Rng, env: &Env, ty: &Ty) -> Val {
	let c = vcfg(rng);
	val::gen_val(rng, env, ty, &c)
}

fn vcfg(rng: &mut Rng) -> ValCfg {
	ValCfg { max_len: 1 + rng.usize(3), max_depth: 3, budget: 6 + rng.below(14) as i32, str_boost: 0, scale: None }
}

fn encode(schema: &Schema, env: &Env, ty: &Ty, v: &Val, pres: PresCfg) -> Result<Vec<u8>, String> {
	let mut config = SerializerConfig::new(schema);
	config.allow_slow_sequence_to_bytes();
	let ctx = PresCtx::new(env, pres, None);
	serde_avro_fast::to_datum_vec(&Presented::new(v, ty, &ctx), &mut config).map_err(|e| e.to_string())
}

fn decode(schema: &Schema, env: &Env, ty: &Ty, bytes: &[u8]) -> Result<Val, String> {
	let ctx = CapCtx::new(env);
	let mut st = DeserializerState::from_slice(bytes, schema);
	Capture { ty, ctx: &ctx }.deserialize(st.deserializer()).map_err(|e| e.to_string())
}

fn round_trip(schema: &Schema, env: &Env, ty: &Ty, vals: &[Val], rng: &mut Rng, what: &str) -> Vec<Vec<u8>> {
	let mut out = vec![];
	for v in vals {
		let pres = if rng.bool() { PresCfg::plain() } else { PresCfg::random(rng, true) };
		let bytes = match encode(schema, env, ty, v, pres) {
			Ok(b) => b,
			Err(e) => mismatch!("{what}: serialization of a conforming value failed: {e}; schema {}", ast::to_json(ty)),
		};
		match decode(schema, env, ty, &bytes) {
			Ok(got) if got == *v => {}
			other => mismatch!("{what}: round trip gave {other:?} for {v:?}; schema {}", ast::to_json(ty)),
		}
		out.push(bytes);
	}
	out
}

fn make_file(schema: &Schema, env: &Env, ty: &Ty, vals: &[Val], codec: Compression, rng: &mut Rng) -> Vec<u8> {
	let mut config = SerializerConfig::new(schema);
	config.allow_slow_sequence_to_bytes();
	let mut sync = [0u8; 16];
	sync.copy_from_slice(&rng.bytes(16));
	let mut w = WriterBuilder::new(&mut config)
		.compression(codec)
		.approx_block_size(*rng.pick(&[0u32, 1, 16, 64 * 1024]))
		.sync_marker(sync)
		.build(Vec::new())
		.unwrap_or_else(|e| mismatch!("writer build failed: {e}"));
	for v in vals {
		let ctx = PresCtx::new(env, PresCfg::plain(), None);
		if let Err(e) = w.serialize(Presented::new(v, ty, &ctx)) {
			mismatch!("writer.serialize failed: {e}")
		}
		if rng.chance(1, 4) {
			w.finish_block().unwrap_or_else(|e| mismatch!("finish_block: {e}"));
		}
	}
	w.into_inner().unwrap_or_else(|e| mismatch!("into_inner: {e}"))
}

fn pick_codec(rng: &mut Rng) -> (Compression, &'static str) {
	let n = if cfg!(feature = "ffi") { 6 } else { 3 };
	match rng.below(n) {
		0 => (Compression::Null, "null"),
		1 => (Compression::Deflate { level: CompressionLevel::default() }, "deflate"),
		2 => (Compression::Snappy, "snappy"),
		#[cfg(feature = "ffi")]
		3 => (Compression::Bzip2 { level: CompressionLevel::new(1) }, "bzip2"),
		#[cfg(feature = "ffi")]
		4 => (Compression::Xz { level: CompressionLevel::new(1) }, "xz"),
		#[cfg(feature = "ffi")]
		_ => (Compression::Zstandard { level: CompressionLevel::default() }, "zstandard"),
		#[cfg(not(feature = "ffi"))]
		_ => (Compression::Null, "null"),
	}
}

// ---------------------------------------------------------------------------------------------
// history templates

/// build graph -> edit -> freeze -> move -> use -> drop (in PRNG-chosen order)
fn t_build_freeze_use(rng: &mut Rng, stats: &mut Stats) {
	let ty = gen_small_schema(rng);
	let env = Env::build(&ty);
	let mut nodes = if rng.bool() {
		stats.op("build-graph:shared-leaves");
		nodes_of_shared(&ty)
	} else {
		nodes_of(&ty)
	};
	stats.op("build-graph");
	// unreachable but valid extra nodes (shared by nobody)
	for _ in 0..rng.usize(3) {
		nodes.push(SchemaNode::new(RegularType::Long));
	}
	let mut sm = SchemaMut::from_nodes(nodes);
	if rng.bool() {
		stats.op("edit:nodes_mut");
		let n = sm.nodes_mut();
		n.push(SchemaNode::new(RegularType::String));
		if rng.bool() {
			let last = n.len() - 1;
			n[last] = Array::new(SchemaKey::from_idx(last)).into(); // unreachable unnamed self-cycle: must not matter
			n.pop();
		}
	}
	let fp_before = sm.canonical_form_rabin_fingerprint().ok();
	let json_before = serde_json::to_string(&sm).ok();
	let sm2 = sm.clone();
	stats.op("freeze:ok");
	let schema = match sm.freeze() {
		Ok(s) => s,
		Err(e) => mismatch!("freeze of a well-formed graph failed: {e}; {}", ast::to_json(&ty)),
	};
	if Some(*schema.rabin_fingerprint()) != fp_before {
		mismatch!("fingerprint changed by freezing");
	}
	if json_before.as_deref() != Some(schema.json()) {
		mismatch!("json changed by freezing: {:?} vs {}", json_before, schema.json());
	}
	let holder = hold(rng, stats, schema, || sm2.clone().freeze().unwrap());
	let vals: Vec<Val> = (0..1 + rng.usize(3)).map(|_| gen_one(rng, &env, &ty)).collect();
	stats.op("serialize+deserialize");
	let _ = round_trip(holder.get(), &env, &ty, &vals, rng, "build-freeze-use");
	// the same graph parsed from its own JSON must behave identically
	if rng.bool() {
		stats.op("parse");
		let parsed: Schema = holder.get().json().parse().unwrap_or_else(|e| mismatch!("regenerated json does not parse: {e}"));
		if parsed.rabin_fingerprint() != holder.get().rabin_fingerprint() {
			mismatch!("parsed(json(graph)) has another fingerprint");
		}
		let _ = round_trip(&parsed, &env, &ty, &vals, rng, "parsed-regenerated");
		// a single-object message written under the built graph must be accepted under its parsed twin
		{
			let mut config = SerializerConfig::new(holder.get());
			config.allow_slow_sequence_to_bytes();
			let ctx = PresCtx::new(&env, PresCfg::plain(), None);
			let msg = serde_avro_fast::to_single_object_vec(&Presented::new(&vals[0], &ty, &ctx), &mut config).unwrap_or_else(|e| mismatch!("to_single_object: {e}"));
			if serde_avro_fast::from_single_object_slice::<serde::de::IgnoredAny>(&msg, &parsed).is_err() {
				mismatch!("single-object message of a built schema rejected by the schema parsed from its own JSON");
			}
			stats.op("single-object:built-vs-parsed");
		}
		if rng.bool() {
			drop(holder);
			let _ = round_trip(&parsed, &env, &ty, &vals, rng, "parsed-after-original-dropped");
			return;
		}
	}
	drop(holder);
}

/// freeze error paths: dangling key unreachable / reachable, empty graph, unnamed-only cycle (never frozen)
fn t_freeze_errors(rng: &mut Rng, stats: &mut Stats) {
	let ty = gen_small_schema(rng);
	let base = nodes_of(&ty);
	// (a) dangling key in a node that is unreachable from the root, planted at every index in turn
	let extra = 1 + rng.usize(3);
	for plant_at in 0..extra {
		let mut nodes = base.clone();
		for j in 0..extra {
			if j == plant_at {
				nodes.push(Array::new(SchemaKey::from_idx(10_000 + j)).into());
			} else {
				nodes.push(Map::new(SchemaKey::from_idx(0)).into());
			}
		}
		// more valid nodes after the dangling one: they were already written when freeze bails out
		nodes.push(Union::new(vec![SchemaKey::from_idx(0)]).into());
		nodes.push(Record::new(Name::from_fully_qualified_name("z.Unreachable"), vec![RecordField::new("x", SchemaKey::from_idx(0))]).into());
		stats.op("freeze:err-unreachable-dangling");
		match SchemaMut::from_nodes(nodes).freeze() {
			Err(_) => {}
			Ok(s) => {
				// tolerated by the property (Ok or Err) as long as the schema is usable
				stats.op("freeze:unreachable-dangling-accepted");
				let _ = s.json().len();
			}
		}
	}
	// (b) dangling key reachable from the root
	{
		let nodes2 = vec![SchemaNode::from(Array::new(SchemaKey::from_idx(7)))];
		stats.op("freeze:err-reachable-dangling");
		if SchemaMut::from_nodes(nodes2).freeze().is_ok() {
			mismatch!("freeze accepted a root with a dangling key");
		}
		// a record whose second field dangles: the first field's node is already built when the error is found
		let nodes3 = vec![
			SchemaNode::from(Record::new(
				Name::from_fully_qualified_name("z.R"),
				vec![RecordField::new("ok", SchemaKey::from_idx(1)), RecordField::new("dangling", SchemaKey::from_idx(42))],
			)),
			SchemaNode::new(RegularType::String),
		];
		if SchemaMut::from_nodes(nodes3).freeze().is_ok() {
			mismatch!("freeze accepted a record field with a dangling key");
		}
	}
	// (c) empty graph
	stats.op("freeze:err-empty");
	if SchemaMut::from_nodes(vec![]).freeze().is_ok() {
		mismatch!("freeze accepted an empty graph");
	}
	// (d) cycle through unnamed nodes only: rendered (must fail cleanly) and dropped, never frozen or fingerprinted
	// (fingerprinting it overflows the stack on the unchanged tree — an input-totality matter, C19, not memory safety)
	stats.op("render-unnamed-cycle");
	let cyc = SchemaMut::from_nodes(vec![Array::new(SchemaKey::from_idx(1)).into(), Map::new(SchemaKey::from_idx(0)).into()]);
	if serde_json::to_string(&cyc).is_ok() {
		mismatch!("an unnamed-only cycle was rendered as JSON");
	}
	drop(cyc);
}

#[derive(serde_derive::Serialize, serde_derive::Deserialize, Debug, PartialEq, Clone)]
struct Owned {
	a: String,
	#[serde(with = "serde_bytes")]
	b: Vec<u8>,
	c: String,
	d: Option<String>,
	e: i64,
}
#[derive(serde_derive::Deserialize, Debug, PartialEq)]
struct Borrowed<'a> {
	a: &'a str,
	#[serde(with = "serde_bytes")]
	b: &'a [u8],
	#[serde(borrow)]
	c: Cow<'a, str>,
	d: Option<&'a str>,
	e: i64,
}
#[derive(serde_derive::Deserialize, Debug, PartialEq)]
struct WithEnum {
	a: String,
	sym: Sym,
}
#[derive(serde_derive::Deserialize, Debug, PartialEq)]
enum Sym {
	S0,
	S1,
	S2,
}
#[derive(serde_derive::Deserialize, Debug, PartialEq)]
struct EnumAsBorrowedStr<'a> {
	a: &'a str,
	sym: &'a str,
}

const REC_JSON: &str = r#"{"type":"record","name":"t.Rec","fields":[{"name":"a","type":"string"},{"name":"b","type":"bytes"},{"name":"c","type":"string"},{"name":"d","type":["null","string"]},{"name":"e","type":"long"}]}"#;
const ENUM_JSON: &str = r#"{"type":"record","name":"t.RecE","fields":[{"name":"a","type":"string"},{"name":"sym","type":{"type":"enum","name":"t.Sym","symbols":["S0","S1","S2"]}}]}"#;

fn gen_owned(rng: &mut Rng) -> Owned {
	let s = |rng: &mut Rng| -> String { (0..rng.usize(6)).map(|_| (b'a' + rng.below(26) as u8) as char).collect() };
	Owned {
		a: s(rng),
		b: {
			let n = rng.usize(5);
			rng.bytes(n)
		},
		c: s(rng),
		d: if rng.bool() { Some(s(rng)) } else { None },
		e: rng.next_u64() as i64,
	}
}

/// values borrowed from the input slice outlive the schema; values must never borrow from the schema
fn t_borrowed(rng: &mut Rng, stats: &mut Stats) {
	stats.op("parse");
	let schema: Schema = REC_JSON.parse().unwrap();
	let v = gen_owned(rng);
	let input: Vec<u8> = serde_avro_fast::to_datum_vec(&v, &mut SerializerConfig::new(&schema)).unwrap();
	stats.op("deserialize:borrowed");
	let b: Borrowed = serde_avro_fast::from_datum_slice(&input, &schema).unwrap_or_else(|e| mismatch!("borrowed deserialization failed: {e}"));
	let holder = hold(rng, stats, schema, || REC_JSON.parse().unwrap());
	let b2: Borrowed = serde_avro_fast::from_datum_slice(&input, holder.get()).unwrap();
	stats.op("drop:schema-before-borrowed-values");
	drop(holder);
	// the borrowed values only point into `input`
	if b.a != v.a || b.b != &v.b[..] || b.c != v.c || b.d != v.d.as_deref() || b.e != v.e || b != b2 {
		mismatch!("borrowed value differs: {b:?} vs {v:?}");
	}
	// enum symbols are owned by the schema: a target that insists on borrowing them must be refused
	let eschema: Schema = ENUM_JSON.parse().unwrap();
	let mut edatum = vec![];
	edatum.push((v.a.len() as u8) << 1);
	edatum.extend_from_slice(v.a.as_bytes());
	edatum.push((rng.below(3) as u8) << 1);
	stats.op("deserialize:enum-symbol");
	let we: WithEnum = serde_avro_fast::from_datum_slice(&edatum, &eschema).unwrap_or_else(|e| mismatch!("enum deserialization failed: {e}"));
	let r: Result<EnumAsBorrowedStr, _> = serde_avro_fast::from_datum_slice(&edatum, &eschema);
	stats.op("drop:schema-then-use-values");
	drop(eschema);
	if we.a != v.a {
		mismatch!("enum record differs");
	}
	if let Ok(leak) = r {
		// reading it now touches freed schema memory if it was borrowed from the schema
		let n = leak.sym.len() + leak.a.len();
		mismatch!("an enum symbol was handed out as a borrowed str ({n} bytes): values must not borrow from the schema");
	}
}

/// container reader lifetimes: the reader keeps its schema alive whatever the caller does with handles
fn t_reader(rng: &mut Rng, stats: &mut Stats) {
	let ty = gen_small_schema(rng);
	let env = Env::build(&ty);
	let schema: Schema = ast::to_json(&ty).parse().unwrap_or_else(|e| mismatch!("schema rejected: {e}"));
	let vals: Vec<Val> = (0..1 + rng.usize(4)).map(|_| gen_one(rng, &env, &ty)).collect();
	let (codec, cname) = pick_codec(rng);
	let file = make_file(&schema, &env, &ty, &vals, codec, rng);
	drop(schema);
	stats.op(match cname {
		"null" => "open-reader:null",
		"deflate" => "open-reader:deflate",
		"snappy" => "open-reader:snappy",
		"bzip2" => "open-reader:bzip2",
		"xz" => "open-reader:xz",
		_ => "open-reader:zstandard",
	});
	let read_k = |reader: &mut dyn FnMut() -> Option<Result<Val, String>>, k: usize, from: usize| {
		for i in 0..k {
			match reader() {
				Some(Ok(v)) if vals.get(from + i) == Some(&v) => {}
				other => mismatch!("reader yielded {other:?} at {}, expected {:?}", from + i, vals.get(from + i)),
			}
		}
	};
	if rng.bool() {
		// slice reader
		let mut reader = Reader::from_slice(&file).unwrap_or_else(|e| mismatch!("Reader::from_slice: {e}"));
		let k = rng.usize(vals.len() + 1);
		stats.op("read-n:slice");
		let mut next = || {
			let ctx = CapCtx::new(&env);
			reader.deserialize_seed_next(Capture { ty: &ty, ctx: &ctx }).map_err(|e| e.to_string()).transpose()
		};
		read_k(&mut next, k, 0);
		// clone the schema handle, drop handles and reader in PRNG order
		stats.op("clone-reader-schema");
		let h1 = reader.schema().clone();
		let h2 = h1.clone();
		match rng.below(4) {
			0 => {
				stats.op("drop:handles-before-reader");
				drop(h1);
				drop(h2);
				let mut next = || {
					let ctx = CapCtx::new(&env);
					reader.deserialize_seed_next(Capture { ty: &ty, ctx: &ctx }).map_err(|e| e.to_string()).transpose()
				};
				read_k(&mut next, vals.len() - k, k);
				if next().is_some() {
					mismatch!("reader yielded more than was written");
				}
				drop(reader);
			}
			1 => {
				stats.op("drop:reader-before-handles");
				drop(reader);
				let _ = round_trip(&h1, &env, &ty, &vals, rng, "schema-handle-after-reader-dropped");
				drop(h1);
				let _ = round_trip(&h2, &env, &ty, &vals, rng, "last-schema-handle");
			}
			2 => {
				stats.op("move:reader-into-box");
				let mut boxed = Box::new(reader);
				drop(h2);
				let mut next = || {
					let ctx = CapCtx::new(&env);
					boxed.deserialize_seed_next(Capture { ty: &ty, ctx: &ctx }).map_err(|e| e.to_string()).transpose()
				};
				read_k(&mut next, vals.len() - k, k);
				drop(boxed);
				let _ = h1.json().len();
			}
			_ => {
				stats.op("drop:reader-mid-block");
				drop(reader);
				drop(h2);
				drop(h1);
			}
		}
	} else {
		// owned reader (Cursor<Vec<u8>>): can be moved across threads
		let cap = *rng.pick(&[1usize, 3, 7, 64, 8192]);
		let mut reader = Reader::from_reader(std::io::BufReader::with_capacity(cap, std::io::Cursor::new(file.clone()))).unwrap_or_else(|e| mismatch!("Reader::from_reader: {e}"));
		let k = rng.usize(vals.len() + 1);
		stats.op("read-n:reader");
		{
			let mut next = || {
				let ctx = CapCtx::new(&env);
				reader.deserialize_seed_next(Capture { ty: &ty, ctx: &ctx }).map_err(|e| e.to_string()).transpose()
			};
			read_k(&mut next, k, 0);
		}
		let handle = reader.schema().clone();
		if rng.bool() {
			stats.op("move:reader-across-thread");
			let ty2 = ty.clone();
			let expect: Vec<Val> = vals[k..].to_vec();
			let t = std::thread::spawn(move || {
				let env = Env::build(&ty2);
				let mut got = vec![];
				loop {
					let ctx = CapCtx::new(&env);
					match reader.deserialize_seed_next(Capture { ty: &ty2, ctx: &ctx }) {
						Ok(Some(v)) => got.push(v),
						Ok(None) => break,
						Err(e) => mismatch!("reader on another thread: {e}"),
					}
				}
				if got != expect {
					mismatch!("reader on another thread yielded {got:?}, expected {expect:?}");
				}
			});
			// the handle is used here while the reader runs over there
			let _ = round_trip(&handle, &env, &ty, &vals, rng, "handle-while-reader-runs-elsewhere");
			drop(handle);
			t.join().unwrap();
		} else {
			drop(handle);
			let mut next = || {
				let ctx = CapCtx::new(&env);
				reader.deserialize_seed_next(Capture { ty: &ty, ctx: &ctx }).map_err(|e| e.to_string()).transpose()
			};
			read_k(&mut next, vals.len() - k, k);
		}
	}
}

/// What FOLLOWS the last block is data too: a second complete container file (same schema in another spelling, another
/// schema altogether, the same file again), bytes that merely begin like a file header, a header cut short. Whatever
/// the reader makes of it — an error, an end, more values — no memory error may follow, also when every other handle
/// on the schema is gone and the reader is polled again and again.
fn t_tail(rng: &mut Rng, stats: &mut Stats) {
	let ty = gen_small_schema(rng);
	let env = Env::build(&ty);
	let json = ast::to_json(&ty);
	let schema: Schema = json.parse().unwrap_or_else(|e| mismatch!("schema rejected: {e}"));
	let vals: Vec<Val> = (0..1 + rng.usize(3)).map(|_| gen_one(rng, &env, &ty)).collect();
	let (codec, _) = pick_codec(rng);
	let mut file = make_file(&schema, &env, &ty, &vals, codec, rng);
	let first_len = file.len();
	let tail: Vec<u8> = match rng.below(6) {
		0 => {
			stats.op("tail:second-file-same-schema-other-spelling");
			let pretty = serde_json::to_string_pretty(&serde_json::from_str::<serde_json::Value>(&json).unwrap()).unwrap();
			let respelled: Schema = pretty.parse().unwrap_or_else(|e| mismatch!("respelled schema rejected: {e}"));
			let (c2, _) = pick_codec(rng);
			make_file(&respelled, &env, &ty, &vals, c2, rng)
		}
		1 | 2 => {
			stats.op("tail:second-file-other-schema");
			let ty2 = gen_small_schema(rng);
			let env2 = Env::build(&ty2);
			let s2: Schema = ast::to_json(&ty2).parse().unwrap_or_else(|e| mismatch!("schema rejected: {e}"));
			let v2: Vec<Val> = (0..1 + rng.usize(3)).map(|_| gen_one(rng, &env2, &ty2)).collect();
			let (c2, _) = pick_codec(rng);
			make_file(&s2, &env2, &ty2, &v2, c2, rng)
		}
		3 => {
			stats.op("tail:same-file-again");
			file.clone()
		}
		4 => {
			stats.op("tail:header-cut-short");
			let n = 4 + rng.usize(file.len().min(60));
			file[..n.min(file.len())].to_vec()
		}
		_ => {
			stats.op("tail:magic-then-garbage");
			let mut t = b"Obj\x01".to_vec();
			let n = rng.usize(40);
			t.extend(rng.bytes(n));
			t
		}
	};
	file.extend_from_slice(&tail);
	drop(schema);
	let polls = 3 + rng.usize(6);
	let drop_handle_first = rng.bool();
	if rng.bool() {
		let mut reader = Reader::from_slice(&file).unwrap_or_else(|e| mismatch!("tail: from_slice: {e}"));
		let handle = reader.schema().clone();
		if drop_handle_first {
			drop(handle);
		}
		for (i, v) in vals.iter().enumerate() {
			let ctx = CapCtx::new(&env);
			match reader.deserialize_seed_next(Capture { ty: &ty, ctx: &ctx }) {
				Ok(Some(got)) if &got == v => {}
				other => mismatch!("tail: value {i} of the first file: {:?}", other.map_err(|e| e.to_string())),
			}
		}
		// whatever comes now is the reader's business: errors, end of stream, or values of the second file
		for _ in 0..polls {
			let _ = reader.deserialize_next::<serde::de::IgnoredAny>().map(|o| o.is_some()).map_err(|e| e.to_string());
			let ctx = CapCtx::new(&env);
			let _ = reader.deserialize_seed_next(Capture { ty: &ty, ctx: &ctx }).map_err(|e| e.to_string());
			let _ = reader.schema().json().len();
		}
	} else {
		let cap = *rng.pick(&[1usize, 5, 64, 8192]);
		let mut reader = Reader::from_reader(std::io::BufReader::with_capacity(cap, std::io::Cursor::new(file.clone()))).unwrap_or_else(|e| mismatch!("tail: from_reader: {e}"));
		let handle = reader.schema().clone();
		if drop_handle_first {
			drop(handle);
		}
		for (i, v) in vals.iter().enumerate() {
			let ctx = CapCtx::new(&env);
			match reader.deserialize_seed_next(Capture { ty: &ty, ctx: &ctx }) {
				Ok(Some(got)) if &got == v => {}
				other => mismatch!("tail: value {i} of the first file: {:?}", other.map_err(|e| e.to_string())),
			}
		}
		for _ in 0..polls {
			let _ = reader.deserialize_next::<serde::de::IgnoredAny>().map(|o| o.is_some()).map_err(|e| e.to_string());
			let ctx = CapCtx::new(&env);
			let _ = reader.deserialize_seed_next(Capture { ty: &ty, ctx: &ctx }).map_err(|e| e.to_string());
			let _ = reader.schema().json().len();
		}
	}
	let _ = first_len;
}

/// A reader is an ordinary value: it may be moved at any moment between two calls — out of a Box (the heap slot is
/// freed), by a Vec that reallocates, by a swap with another reader, by being returned from a function — and must go on
/// exactly as before. Whatever it keeps between calls must therefore not point into the Reader value itself.
fn t_reader_moves(rng: &mut Rng, stats: &mut Stats) {
	let ty = gen_small_schema(rng);
	let env = Env::build(&ty);
	let schema: Schema = ast::to_json(&ty).parse().unwrap_or_else(|e| mismatch!("schema rejected: {e}"));
	let vals: Vec<Val> = (0..2 + rng.usize(5)).map(|_| gen_one(rng, &env, &ty)).collect();
	let vals_b: Vec<Val> = (0..2 + rng.usize(3)).map(|_| gen_one(rng, &env, &ty)).collect();
	let (codec, cname) = pick_codec(rng);
	let file = make_file(&schema, &env, &ty, &vals, codec, rng);
	let file_b = make_file(&schema, &env, &ty, &vals_b, codec, rng);
	drop(schema);
	stats.op(match cname {
		"null" => "moves:null",
		"deflate" => "moves:deflate",
		"snappy" => "moves:snappy",
		"bzip2" => "moves:bzip2",
		"xz" => "moves:xz",
		_ => "moves:zstandard",
	});
	macro_rules! next_of {
		($r:expr) => {{
			let ctx = CapCtx::new(&env);
			$r.deserialize_seed_next(Capture { ty: &ty, ctx: &ctx }).map_err(|e| e.to_string())
		}};
	}
	macro_rules! expect_vals {
		($r:expr, $vals:expr, $from:expr, $n:expr, $what:expr) => {{
			for i in $from..$from + $n {
				match next_of!($r) {
					Ok(Some(v)) if $vals.get(i) == Some(&v) => {}
					other => mismatch!("{}: reader yielded {other:?} at {i}, expected {:?}", $what, $vals.get(i)),
				}
			}
		}};
	}
	macro_rules! expect_end {
		($r:expr, $what:expr) => {{
			match next_of!($r) {
				Ok(None) => {}
				other => mismatch!("{}: reader yielded {other:?} where the file ends", $what),
			}
		}};
	}
	macro_rules! scenario {
		($open:expr, $open_b:expr) => {{
			let k = 1 + rng.usize(vals.len() - 1);
			match rng.below(5) {
				0 => {
					stats.op("move:out-of-box-mid-block");
					let mut boxed = Box::new($open);
					expect_vals!(boxed, vals, 0, k, "boxed");
					let mut r = *boxed; // the heap slot is freed here
					// something else takes the freed slot
					let mut other = Box::new($open_b);
					expect_vals!(other, vals_b, 0, 1, "second reader in the freed slot");
					expect_vals!(r, vals, k, vals.len() - k, "after the move out of the box");
					expect_end!(r, "after the move out of the box");
					expect_vals!(other, vals_b, 1, vals_b.len() - 1, "second reader");
					expect_end!(other, "second reader");
				}
				1 => {
					stats.op("move:vec-reallocation-mid-block");
					let mut v = Vec::with_capacity(1);
					v.push($open);
					expect_vals!(v[0], vals, 0, k, "in a vec");
					v.push($open_b); // reallocates: both readers move, the old buffer is freed
					v.reserve(64);
					expect_vals!(v[1], vals_b, 0, 1, "second reader in the vec");
					expect_vals!(v[0], vals, k, vals.len() - k, "after the vec reallocated");
					expect_end!(v[0], "after the vec reallocated");
					expect_vals!(v[1], vals_b, 1, vals_b.len() - 1, "second reader in the vec");
				}
				2 => {
					stats.op("move:swap-two-readers-mid-block");
					let mut a = $open;
					let mut b = $open_b;
					expect_vals!(a, vals, 0, k, "a");
					expect_vals!(b, vals_b, 0, 1, "b");
					std::mem::swap(&mut a, &mut b);
					expect_vals!(b, vals, k, vals.len() - k, "a's reader, now in b");
					expect_end!(b, "a's reader, now in b");
					expect_vals!(a, vals_b, 1, vals_b.len() - 1, "b's reader, now in a");
					expect_end!(a, "b's reader, now in a");
				}
				3 => {
					stats.op("move:returned-from-a-function-mid-block");
					#[inline(never)]
					fn through<T>(make: impl FnOnce() -> T, first: impl FnOnce(&mut T)) -> Box<T> {
						let mut local = make();
						first(&mut local);
						Box::new(local)
					}
					let mut r = through(|| $open, |r| expect_vals!(r, vals, 0, k, "inside the function"));
					expect_vals!(r, vals, k, vals.len() - k, "after being returned");
					expect_end!(r, "after being returned");
				}
				_ => {
					stats.op("move:into-box-then-option-take-mid-block");
					let mut slot = Some(Box::new($open));
					expect_vals!(slot.as_mut().unwrap(), vals, 0, k, "in the slot");
					let mut r = *slot.take().unwrap();
					let filler: Vec<Box<[u64; 48]>> = (0..8).map(|i| Box::new([i as u64; 48])).collect();
					expect_vals!(r, vals, k, vals.len() - k, "after take");
					expect_end!(r, "after take");
					drop(filler);
				}
			}
		}};
	}
	if rng.bool() {
		stats.op("moves:slice-reader");
		scenario!(Reader::from_slice(&file).unwrap_or_else(|e| mismatch!("Reader::from_slice: {e}")), Reader::from_slice(&file_b).unwrap_or_else(|e| mismatch!("Reader::from_slice: {e}")));
	} else {
		stats.op("moves:bufread-reader");
		scenario!(
			Reader::from_reader(std::io::BufReader::with_capacity(*rng.pick(&[1usize, 5, 64, 8192]), std::io::Cursor::new(file.clone()))).unwrap_or_else(|e| mismatch!("Reader::from_reader: {e}")),
			Reader::from_reader(std::io::BufReader::with_capacity(*rng.pick(&[1usize, 5, 64, 8192]), std::io::Cursor::new(file_b.clone()))).unwrap_or_else(|e| mismatch!("Reader::from_reader: {e}"))
		);
	}
}

/// borrowed deserialization through the container reader: only from an uncompressed slice
fn t_reader_borrowed(rng: &mut Rng, stats: &mut Stats) {
	let schema: Schema = REC_JSON.parse().unwrap();
	let vals: Vec<Owned> = (0..1 + rng.usize(3)).map(|_| gen_owned(rng)).collect();
	let (codec, cname) = pick_codec(rng);
	let mut config = SerializerConfig::new(&schema);
	let mut w = WriterBuilder::new(&mut config).compression(codec).build(Vec::new()).unwrap();
	for v in &vals {
		w.serialize(v).unwrap();
	}
	let file = w.into_inner().unwrap();
	drop(schema);
	let mut reader = Reader::from_slice(&file).unwrap();
	stats.op("read-n:borrowed");
	let mut kept: Vec<Borrowed> = vec![];
	let mut errs = 0;
	if rng.bool() {
		loop {
			match reader.deserialize_next_borrowed::<Borrowed>() {
				Ok(Some(b)) => kept.push(b),
				Ok(None) => break,
				Err(_) => {
					errs += 1;
					break;
				}
			}
		}
	} else {
		// the iterator API; the iterator borrows the reader, the items borrow the input
		stats.op("read-n:borrowed-iterator");
		for item in reader.deserialize_borrowed::<Borrowed>() {
			match item {
				Ok(b) => kept.push(b),
				Err(_) => {
					errs += 1;
					break;
				}
			}
		}
		// owned iterator over a second reader on the same input
		let mut r2 = Reader::from_slice(&file).unwrap();
		let owned: Vec<Owned> = r2.deserialize::<Owned>().filter_map(|r| r.ok()).collect();
		if owned != vals {
			mismatch!("owned iterator read {} values, wrote {}", owned.len(), vals.len());
		}
	}
	stats.op("drop:reader-while-borrowed-values-live");
	drop(reader);
	if cname == "null" {
		if errs != 0 || kept.len() != vals.len() {
			mismatch!("borrowed read of an uncompressed file: {} values, {errs} errors", kept.len());
		}
	} else if !kept.is_empty() && kept.iter().any(|b| !b.a.is_empty() || !b.b.is_empty() || !b.c.is_empty()) {
		// non-empty borrowed data out of a compressed block can only point into the reader's decompression buffer
		let total: usize = kept.iter().map(|b| b.a.len() + b.b.len()).sum();
		// Cow may legitimately be owned: only &str / &[u8] fields count
		if total > 0 {
			mismatch!("values borrowed {total} bytes out of a {cname} block: they would point into the decompression buffer");
		}
	}
	for (b, v) in kept.iter().zip(&vals) {
		if b.a != v.a || b.b != &v.b[..] || b.c != v.c || b.e != v.e {
			mismatch!("borrowed container value differs");
		}
	}
}

#[derive(serde_derive::Deserialize, Debug, PartialEq)]
struct CowRec<'a> {
	#[serde(borrow)]
	a: Cow<'a, str>,
	#[serde(borrow, with = "serde_bytes")]
	b: Cow<'a, [u8]>,
	#[serde(borrow)]
	c: Cow<'a, str>,
	d: Option<String>,
	e: i64,
}

/// a borrowing seed handed to `deserialize_seed_next` of a reader built over an `impl BufRead`: the lifetime is the
/// caller's choice (here: 'static), so whatever comes back must not point into the reader (scratch space,
/// decompression buffers); values are kept across the loading of further blocks and past the reader's drop
fn t_reader_seed_borrow(rng: &mut Rng, stats: &mut Stats) {
	let schema: Schema = REC_JSON.parse().unwrap();
	let vals: Vec<Owned> = (0..2 + rng.usize(4)).map(|_| gen_owned(rng)).collect();
	let (codec, _) = pick_codec(rng);
	let mut config = SerializerConfig::new(&schema);
	let mut w = WriterBuilder::new(&mut config).compression(codec).approx_block_size(*rng.pick(&[0u32, 1, 24, 64 * 1024])).build(Vec::new()).unwrap();
	for v in &vals {
		w.serialize(v).unwrap();
	}
	let file = w.into_inner().unwrap();
	drop(schema);
	stats.op("read-n:seed-with-borrowing-target-over-bufread");
	let mut kept: Vec<CowRec<'static>> = vec![];
	if rng.bool() {
		let mut reader = Reader::from_reader(std::io::Cursor::new(file.clone())).unwrap();
		while let Some(v) = reader.deserialize_seed_next(std::marker::PhantomData::<CowRec<'static>>).unwrap_or_else(|e| mismatch!("seed read: {e}")) {
			kept.push(v);
		}
		stats.op("drop:reader-while-seed-values-live");
		drop(reader);
	} else {
		let mut reader = Reader::from_reader(std::io::BufReader::with_capacity(1 + rng.usize(40), std::io::Cursor::new(file.clone()))).unwrap();
		while let Some(v) = reader.deserialize_seed_next(std::marker::PhantomData::<CowRec<'static>>).unwrap_or_else(|e| mismatch!("seed read: {e}")) {
			kept.push(v);
		}
		drop(reader);
	}
	drop(file);
	if kept.len() != vals.len() {
		mismatch!("seed read yielded {} values, wrote {}", kept.len(), vals.len());
	}
	for (k, v) in kept.iter().zip(&vals) {
		if k.a != v.a || k.b[..] != v.b[..] || k.c != v.c || k.d != v.d || k.e != v.e {
			mismatch!("value read through a borrowing seed changed after the reader moved on: {k:?} vs {v:?}");
		}
	}
}

/// The BufRead-based input path keeps a scratch buffer across values, blocks and files' worth of reads: values of
/// widely varying sizes (growing, shrinking, growing again, a few above 8 KiB and 64 KiB) delivered through readers
/// whose buffer is far smaller than the values, so that nearly every length-delimited value goes through that
/// scratch buffer. The detector watches the buffer's allocation; the values are compared with what was written.
fn t_scratch(rng: &mut Rng, stats: &mut Stats) {
	#[derive(serde_derive::Serialize, serde_derive::Deserialize, PartialEq, Debug, Clone)]
	struct Blobs {
		a: String,
		#[serde(with = "serde_bytes")]
		b: Vec<u8>,
		m: std::collections::BTreeMap<String, i32>,
	}
	const JSON: &str = r#"{"type":"record","name":"t.Blobs","fields":[{"name":"a","type":"string"},{"name":"b","type":"bytes"},{"name":"m","type":{"type":"map","values":"int"}}]}"#;
	let schema: Schema = JSON.parse().unwrap();
	let size = |rng: &mut Rng| -> usize {
		if cfg!(miri) {
			// the interpreter is a thousand times slower: same growth / shrink patterns, two orders of magnitude smaller
			return match rng.below(6) {
				0 => 0,
				1 | 2 => rng.usize(6),
				3 | 4 => rng.usize(40),
				_ => 40 + rng.usize(300),
			};
		}
		match rng.below(12) {
			0 => 0,
			1..=4 => rng.usize(12),
			5..=7 => rng.usize(200),
			8 | 9 => 200 + rng.usize(3000),
			10 => 8000 + rng.usize(2000),
			_ => {
				if rng.chance(1, 6) {
					65000 + rng.usize(9000)
				} else {
					10_000 + rng.usize(40_000)
				}
			}
		}
	};
	let n = 2 + rng.usize(6);
	let vals: Vec<Blobs> = (0..n)
		.map(|i| {
			let (la, lb) = (size(rng), size(rng));
			Blobs {
				a: (0..la).map(|j| (b'a' + ((i + j * 7) % 26) as u8) as char).collect(),
				b: (0..lb).map(|j| (i * 31 + j) as u8).collect(),
				m: (0..rng.usize(3)).map(|k| ("k".repeat(1 + size(rng) % 300) + &k.to_string(), k as i32)).collect(),
			}
		})
		.collect();
	let cap = *rng.pick(&[1usize, 2, 3, 5, 8, 16, 64, 512, 8192]);
	stats.op(match cap {
		1..=8 => "scratch:reader-buffer-of-1-to-8-bytes",
		9..=512 => "scratch:reader-buffer-of-16-to-512-bytes",
		_ => "scratch:reader-buffer-of-8-kib",
	});
	if rng.bool() {
		// datum after datum on ONE reader: the scratch buffer lives in the DeserializerState, which is handed on
		stats.op("scratch:datums-on-one-reader");
		let mut stream = vec![];
		for v in &vals {
			stream.extend(serde_avro_fast::to_datum_vec(v, &mut SerializerConfig::new(&schema)).unwrap_or_else(|e| mismatch!("to_datum_vec: {e}")));
		}
		let src = std::io::BufReader::with_capacity(cap, std::io::Cursor::new(stream));
		let mut state = serde_avro_fast::de::DeserializerState::new(serde_avro_fast::de::read::ReaderRead::new(src), &schema);
		for (i, v) in vals.iter().enumerate() {
			let got: Blobs = serde::Deserialize::deserialize(state.deserializer()).unwrap_or_else(|e| mismatch!("datum {i}: {e}"));
			if &got != v {
				mismatch!("datum {i} read through a {cap}-byte reader buffer differs: lengths {} / {} vs written {} / {}", got.a.len(), got.b.len(), v.a.len(), v.b.len());
			}
		}
	} else {
		stats.op("scratch:container-file");
		let (codec, _) = pick_codec(rng);
		let mut config = SerializerConfig::new(&schema);
		let mut w = WriterBuilder::new(&mut config).compression(codec).approx_block_size(*rng.pick(&[0u32, 300, 64 * 1024, 1 << 20])).build(Vec::new()).unwrap();
		for v in &vals {
			w.serialize(v).unwrap_or_else(|e| mismatch!("serialize: {e}"));
		}
		let file = w.into_inner().unwrap_or_else(|e| mismatch!("into_inner: {e}"));
		let mut reader = Reader::from_reader(std::io::BufReader::with_capacity(cap, std::io::Cursor::new(file))).unwrap_or_else(|e| mismatch!("from_reader: {e}"));
		for (i, v) in vals.iter().enumerate() {
			match reader.deserialize_next::<Blobs>() {
				Ok(Some(got)) if &got == v => {}
				Ok(Some(got)) => mismatch!("value {i} read through a {cap}-byte reader buffer differs: lengths {} / {} vs written {} / {}", got.a.len(), got.b.len(), v.a.len(), v.b.len()),
				other => mismatch!("value {i}: {:?}", other.map(|o| o.is_some()).map_err(|e| e.to_string())),
			}
		}
		if !matches!(reader.deserialize_next::<Blobs>(), Ok(None)) {
			mismatch!("more values than were written");
		}
	}
}

/// LONG histories on ONE object: a writer and a reader over a hundred to several hundred blocks whose sizes follow a
/// pattern (one large block, then many small ones, then a medium one; growing; shrinking; spikes every 16 / 64 / 256),
/// one serializer configuration and one deserializer state over hundreds of datums. What recycled, trimmed, capped or
/// lazily grown internal buffers — and whatever `unsafe` keeps track of their initialised part — get wrong only after
/// many uses.
fn t_long(rng: &mut Rng, stats: &mut Stats) {
	let schema: Schema = r#""bytes""#.parse().unwrap();
	let miri = cfg!(miri);
	let n = if miri { 66 + rng.usize(12) } else { *rng.pick(&[130usize, 200, 260, 300, 520]) + rng.usize(20) };
	let (small, medium, big) = if miri { (8usize, 300usize, 2_000usize) } else { (40, 40_000, 140_000 + rng.usize(200_000)) };
	let pattern = rng.below(6);
	let period = *rng.pick(&[16usize, 64, 65, 128, 256]);
	let big_at = rng.usize(3);
	let sizes: Vec<usize> = (0..n)
		.map(|i| match pattern {
			// one large block early, then small ones, then a medium one now and then
			0 => {
				if i == big_at {
					big
				} else if i > big_at && (i - big_at) % (period + 1) == 0 {
					medium + rng.usize(medium)
				} else {
					rng.usize(small)
				}
			}
			1 => i * (if miri { 4 } else { 150 }),
			2 => (n - i) * (if miri { 4 } else { 150 }),
			3 => {
				if i % period == period - 1 {
					medium + rng.usize(big - medium)
				} else {
					rng.usize(small)
				}
			}
			4 => rng.usize(small),
			_ => match rng.below(20) {
				0 => medium + rng.usize(big - medium),
				1 | 2 => rng.usize(medium),
				_ => rng.usize(small),
			},
		})
		.collect();
	let vals: Vec<Vec<u8>> = sizes.iter().enumerate().map(|(i, &l)| (0..l).map(|j| (j as u64).wrapping_mul(0x9E37_79B9).wrapping_add(i as u64 * 7).wrapping_shr(5) as u8).collect()).collect();
	stats.op(match pattern {
		0 => "long:one-large-block-then-small-ones-then-medium",
		1 => "long:growing",
		2 => "long:shrinking",
		3 => "long:spikes",
		4 => "long:small",
		_ => "long:mixed",
	});
	match rng.below(3) {
		0 | 1 => {
			let (codec, name) = if miri {
				if rng.bool() { (Compression::Null, "null") } else { (Compression::Snappy, "snappy") }
			} else {
				pick_codec(rng)
			};
			let _ = name;
			stats.op("long:container-file-of-hundreds-of-blocks");
			let mut config = SerializerConfig::new(&schema);
			let mut w = WriterBuilder::new(&mut config).compression(codec).approx_block_size(*rng.pick(&[0u32, 0, 1, 64])).build(Vec::new()).unwrap_or_else(|e| mismatch!("long: build: {e}"));
			for v in &vals {
				w.serialize(serde_bytes::Bytes::new(v)).unwrap_or_else(|e| mismatch!("long: serialize: {e}"));
			}
			let file = w.into_inner().unwrap_or_else(|e| mismatch!("long: into_inner: {e}"));
			let check = |i: usize, got: Result<Option<serde_bytes::ByteBuf>, serde_avro_fast::de::DeError>| match got {
				Ok(Some(g)) if g.as_ref() == &vals[i][..] => {}
				Ok(Some(g)) => mismatch!("long: value {i} of {n} differs: {} bytes vs {} written", g.len(), vals[i].len()),
				other => mismatch!("long: value {i} of {n}: {:?}", other.map(|o| o.is_some()).map_err(|e| e.to_string())),
			};
			if rng.bool() {
				stats.op("long:read-from-slice");
				let mut reader = Reader::from_slice(&file).unwrap_or_else(|e| mismatch!("long: from_slice: {e}"));
				for i in 0..n {
					check(i, reader.deserialize_next::<serde_bytes::ByteBuf>());
				}
				if !matches!(reader.deserialize_next::<serde_bytes::ByteBuf>(), Ok(None)) {
					mismatch!("long: more values than were written");
				}
			} else {
				stats.op("long:read-from-bufread");
				let cap = *rng.pick(&[1usize, 7, 64, 8192]);
				let mut reader = Reader::from_reader(std::io::BufReader::with_capacity(cap, std::io::Cursor::new(&file[..]))).unwrap_or_else(|e| mismatch!("long: from_reader: {e}"));
				for i in 0..n {
					check(i, reader.deserialize_next::<serde_bytes::ByteBuf>());
				}
				if !matches!(reader.deserialize_next::<serde_bytes::ByteBuf>(), Ok(None)) {
					mismatch!("long: more values than were written");
				}
			}
		}
		_ => {
			stats.op("long:one-configuration-and-one-deserializer-state-over-hundreds-of-datums");
			let mut config = SerializerConfig::new(&schema);
			let mut stream = vec![];
			for (i, v) in vals.iter().enumerate() {
				let d = serde_avro_fast::to_datum_vec(serde_bytes::Bytes::new(v), &mut config).unwrap_or_else(|e| mismatch!("long: to_datum_vec {i}: {e}"));
				stream.extend(d);
			}
			let cap = *rng.pick(&[1usize, 5, 64, 8192]);
			let src = std::io::BufReader::with_capacity(cap, std::io::Cursor::new(stream));
			let mut state = serde_avro_fast::de::DeserializerState::new(serde_avro_fast::de::read::ReaderRead::new(src), &schema);
			for (i, v) in vals.iter().enumerate() {
				let got: serde_bytes::ByteBuf = serde::Deserialize::deserialize(state.deserializer()).unwrap_or_else(|e| mismatch!("long: datum {i}: {e}"));
				if got.as_ref() != &v[..] {
					mismatch!("long: datum {i} of {n} differs: {} bytes vs {} written", got.len(), v.len());
				}
			}
		}
	}
}

/// User code called by the crate may PANIC (a `BufRead` source, a `Write` sink, a `Serialize` impl): the unwind goes
/// through the reader's / writer's / serializer's frames. Afterwards the object is dropped, or used again and then
/// dropped; whatever it answers, no memory error may follow (no double drop, no use of something the unwind dropped).
fn t_panics(rng: &mut Rng, stats: &mut Stats) {
	use std::panic::{catch_unwind, AssertUnwindSafe};
	struct PanicSource {
		inner: std::io::BufReader<std::io::Cursor<Vec<u8>>>,
		calls: std::rc::Rc<std::cell::Cell<u32>>,
		panic_at: u32,
		_canary: Box<u64>,
	}
	impl PanicSource {
		fn tick(&mut self) {
			self.calls.set(self.calls.get() + 1);
			if self.calls.get() == self.panic_at {
				panic!("MEMSIM-INJECTED source panic");
			}
		}
	}
	impl std::io::Read for PanicSource {
		fn read(&mut self, buf: &mut [u8]) -> std::io::Result<usize> {
			self.tick();
			self.inner.read(buf)
		}
	}
	impl std::io::BufRead for PanicSource {
		fn fill_buf(&mut self) -> std::io::Result<&[u8]> {
			self.tick();
			self.inner.fill_buf()
		}
		fn consume(&mut self, n: usize) {
			self.tick();
			self.inner.consume(n)
		}
	}
	struct PanicSink {
		out: Vec<u8>,
		calls: u32,
		panic_at: u32,
		_canary: Box<u64>,
	}
	impl std::io::Write for PanicSink {
		fn write(&mut self, buf: &[u8]) -> std::io::Result<usize> {
			self.calls += 1;
			if self.calls == self.panic_at {
				panic!("MEMSIM-INJECTED sink panic");
			}
			let n = buf.len().min(1 + (self.calls as usize * 7) % 13);
			self.out.extend_from_slice(&buf[..n]);
			Ok(n)
		}
		fn flush(&mut self) -> std::io::Result<()> {
			Ok(())
		}
	}
	// the injected panics are expected: keep them out of the log (everything else still prints)
	static HOOK: std::sync::Once = std::sync::Once::new();
	HOOK.call_once(|| {
		let prev = std::panic::take_hook();
		std::panic::set_hook(Box::new(move |info| {
			if !info.to_string().contains("MEMSIM-INJECTED") {
				prev(info)
			}
		}));
	});
	let ty = gen_small_schema(rng);
	let env = Env::build(&ty);
	let schema: Schema = ast::to_json(&ty).parse().unwrap_or_else(|e| mismatch!("schema rejected: {e}"));
	let vals: Vec<Val> = (0..2 + rng.usize(5)).map(|_| gen_one(rng, &env, &ty)).collect();
	let (codec, _) = pick_codec(rng);
	if rng.chance(2, 3) {
		// ---- a source that panics at its n-th call (any of read / fill_buf / consume), between or inside blocks
		let file = make_file(&schema, &env, &ty, &vals, codec, rng);
		drop(schema);
		let cap = *rng.pick(&[1usize, 4, 16, 64, 8192]);
		// how many calls does a clean run make?
		let count_calls = {
			let calls = std::rc::Rc::new(std::cell::Cell::new(0));
			let src = PanicSource { inner: std::io::BufReader::with_capacity(cap, std::io::Cursor::new(file.clone())), calls: calls.clone(), panic_at: 0, _canary: Box::new(1) };
			let mut reader = Reader::from_reader(src).unwrap_or_else(|e| mismatch!("from_reader: {e}"));
			loop {
				let ctx = CapCtx::new(&env);
				match reader.deserialize_seed_next(Capture { ty: &ty, ctx: &ctx }) {
					Ok(Some(_)) => {}
					Ok(None) => break,
					Err(e) => mismatch!("clean read failed: {e}"),
				}
			}
			drop(reader);
			calls.get()
		};
		let panic_at = 1 + rng.below(count_calls.max(1) as u64) as u32;
		stats.op("panic:source");
		let src = PanicSource { inner: std::io::BufReader::with_capacity(cap, std::io::Cursor::new(file.clone())), calls: Default::default(), panic_at, _canary: Box::new(2) };
		let built = catch_unwind(AssertUnwindSafe(|| Reader::from_reader(src)));
		let mut reader = match built {
			Ok(Ok(r)) => r,
			Ok(Err(e)) => mismatch!("from_reader: {e}"),
			Err(_) => {
				stats.op("panic:source:during-construction");
				return;
			}
		};
		let mut got: Vec<Val> = vec![];
		let mut panicked = false;
		for _ in 0..vals.len() + 3 {
			let r = catch_unwind(AssertUnwindSafe(|| {
				let ctx = CapCtx::new(&env);
				reader.deserialize_seed_next(Capture { ty: &ty, ctx: &ctx }).map_err(|e| e.to_string())
			}));
			match r {
				Ok(Ok(Some(v))) => got.push(v),
				Ok(Ok(None)) => break,
				Ok(Err(_)) => {}
				Err(_) => {
					panicked = true;
					stats.op("panic:source:unwound-through-reader");
					if rng.bool() {
						stats.op("panic:source:reader-dropped-right-after");
						break;
					}
					stats.op("panic:source:reader-used-again");
				}
			}
		}
		if !panicked {
			mismatch!("the source was to panic at call {panic_at} of {count_calls} but no panic came out");
		}
		// values handed out BEFORE the panic are genuine; nothing is claimed about those after it
		drop(reader);
	} else {
		// ---- a sink that panics at its n-th write
		stats.op("panic:sink");
		let clean = make_file(&schema, &env, &ty, &vals, codec, rng);
		let panic_at = 1 + rng.below(4 + clean.len() as u64 / 6) as u32;
		let mut config = SerializerConfig::new(&schema);
		config.allow_slow_sequence_to_bytes();
		let sink = PanicSink { out: vec![], calls: 0, panic_at, _canary: Box::new(3) };
		let built = catch_unwind(AssertUnwindSafe(|| WriterBuilder::new(&mut config).compression(codec).approx_block_size(*rng.pick(&[0u32, 16, 64 * 1024])).build(sink)));
		let mut w = match built {
			Ok(Ok(w)) => w,
			Ok(Err(e)) => mismatch!("writer build failed: {e}"),
			Err(_) => {
				stats.op("panic:sink:during-construction");
				return;
			}
		};
		let mut unwound = false;
		for v in &vals {
			let r = catch_unwind(AssertUnwindSafe(|| {
				let ctx = PresCtx::new(&env, PresCfg::plain(), None);
				w.serialize(Presented::new(v, &ty, &ctx)).map_err(|e| e.to_string())
			}));
			if r.is_err() {
				unwound = true;
				stats.op("panic:sink:unwound-through-writer");
				if rng.bool() {
					break;
				}
			}
		}
		let r = catch_unwind(AssertUnwindSafe(move || match rng_bool_static(unwound) {
			true => drop(w.into_inner()),
			false => drop(w),
		}));
		if r.is_err() {
			stats.op("panic:sink:unwound-through-writer-drop");
		}
	}
}
fn rng_bool_static(b: bool) -> bool {
	b
}

/// several threads use one schema at once; results must equal the sequential ones
fn t_threads(rng: &mut Rng, stats: &mut Stats) {
	// half of the histories: a union with several NAMED branches, each thread presenting another branch first (whatever
	// a schema node remembers about the first caller, the first callers are then different and concurrent)
	let named_union = rng.bool();
	const N_UNIONS: u16 = 6;
	let ty = if named_union {
		stats.op("threads:union-of-named-branches");
		// several independent union nodes, each with two named branches: every one of them is a separate chance for
		// two threads to be its first users at the same moment with different branches
		Ty::Record {
			name: 0,
			fields: (0..N_UNIONS)
				.map(|i| {
					(
						i,
						Ty::Union(vec![
							Ty::Record { name: 1 + 2 * i, fields: vec![(0, Ty::Int)] },
							if i % 2 == 0 { Ty::Record { name: 2 + 2 * i, fields: vec![(0, Ty::Int)] } } else { Ty::Enum { name: 2 + 2 * i, symbols: 3 } },
							Ty::Null,
						]),
					)
				})
				.collect(),
		}
	} else {
		gen_small_schema(rng)
	};
	let env = Env::build(&ty);
	let n_threads = 2 + rng.usize(2);
	let vals: Vec<Vec<Val>> = if named_union {
		(0..n_threads)
			.map(|t| {
				(0..2)
					.map(|j| {
						Val::Record(
							(0..N_UNIONS as usize)
								.map(|i| {
									let b = (t + i + j * (i + 1)) % 2;
									let inner = if b == 0 || i % 2 == 0 { Val::Record(vec![Val::Int(rng.range(-5, 5) as i32)]) } else { Val::Enum(rng.below(3) as u16) };
									Val::Union(b as u16, Box::new(inner))
								})
								.collect(),
						)
					})
					.collect()
			})
			.collect()
	} else {
		(0..n_threads).map(|_| (0..1 + rng.usize(2)).map(|_| gen_one(rng, &env, &ty)).collect()).collect()
	};
	let built_from_graph = rng.bool();
	let make_schema = |stats: &mut Stats| -> Schema {
		if built_from_graph {
			stats.op("build-graph");
			SchemaMut::from_nodes(nodes_of(&ty)).freeze().unwrap_or_else(|e| mismatch!("freeze: {e}"))
		} else {
			stats.op("parse");
			ast::to_json(&ty).parse().unwrap_or_else(|e| mismatch!("parse: {e}"))
		}
	};
	// sequential results first — on a SEPARATE schema instance, so that in half of the histories the worker
	// threads are the very first users of the shared one (anything initialised lazily is then initialised concurrently)
	let schema_seq = make_schema(stats);
	let expected: Vec<Vec<Vec<u8>>> = vals
		.iter()
		.map(|vs| vs.iter().map(|v| encode(&schema_seq, &env, &ty, v, PresCfg::plain()).unwrap_or_else(|e| mismatch!("sequential encode: {e}"))).collect())
		.collect();
	let (codec, _) = pick_codec(rng);
	// (the named-union histories are about the serializer's lookups: no container files there, which keeps them
	// cheap enough under Miri to run many)
	let files: Vec<Vec<u8>> = if named_union { vals.iter().map(|_| vec![]).collect() } else { vals.iter().map(|vs| make_file(&schema_seq, &env, &ty, vs, codec, &mut rng.fork())).collect() };
	let schema: Schema = if rng.bool() {
		stats.op("threads:first-use-is-concurrent");
		drop(schema_seq);
		make_schema(stats)
	} else {
		schema_seq
	};
	let worker = |schema: &Schema, ty: &Ty, vs: &[Val], exp: &[Vec<u8>], file: &[u8]| {
		let env = Env::build(ty);
		// Debug rendering walks the node graph (with a thread-local depth guard)
		if !file.is_empty() {
			let dbg = format!("{schema:?}");
			if dbg.is_empty() {
				mismatch!("empty Debug rendering");
			}
		}
		for (v, e) in vs.iter().zip(exp) {
			let b = encode(schema, &env, ty, v, PresCfg::plain()).unwrap_or_else(|e| mismatch!("concurrent encode: {e}"));
			if &b != e {
				mismatch!("concurrent serialization differs from sequential");
			}
			match decode(schema, &env, ty, &b) {
				Ok(got) if got == *v => {}
				other => mismatch!("concurrent deserialization gave {other:?}"),
			}
		}
		if file.is_empty() {
			return;
		}
		let mut reader = Reader::from_slice(file).unwrap_or_else(|e| mismatch!("concurrent Reader::from_slice: {e}"));
		for v in vs {
			let ctx = CapCtx::new(&env);
			match reader.deserialize_seed_next(Capture { ty, ctx: &ctx }) {
				Ok(Some(got)) if got == *v => {}
				other => mismatch!("concurrent container read gave {:?}", other.map_err(|e| e.to_string())),
			}
		}
	};
	if rng.bool() {
		stats.op("threads:shared-reference");
		std::thread::scope(|s| {
			for i in 0..n_threads {
				let (schema, ty, vs, exp, file) = (&schema, &ty, &vals[i], &expected[i], &files[i]);
				s.spawn(move || worker(schema, ty, vs, exp, file));
			}
		});
		// whatever the concurrent phase left behind in the schema must not change later, sequential results
		stats.op("threads:sequential-use-after-concurrent-use");
		for (vs, exp) in vals.iter().zip(&expected) {
			for (v, e) in vs.iter().zip(exp) {
				let b = encode(&schema, &env, &ty, v, PresCfg::plain()).unwrap_or_else(|e| mismatch!("sequential encode after concurrent use: {e}"));
				if &b != e {
					mismatch!("serialization after concurrent use of the schema differs from the sequential result: {b:?} vs {e:?}");
				}
			}
		}
		drop(schema);
	} else {
		stats.op("threads:arc");
		let arc = Arc::new(schema);
		let mut handles = vec![];
		for i in 0..n_threads {
			let (arc, ty, vs, exp, file) = (arc.clone(), ty.clone(), vals[i].clone(), expected[i].clone(), files[i].clone());
			handles.push(std::thread::spawn(move || {
				worker(&arc, &ty, &vs, &exp, &file);
				// the last owner may be a worker
				drop(arc);
			}));
		}
		// the main thread lets go of its handle while the workers run
		stats.op("drop:main-handle-while-workers-run");
		drop(arc);
		for h in handles {
			h.join().unwrap();
		}
	}
}

// ---------------------------------------------------------------------------------------------

fn main() {
	let args: Vec<String> = std::env::args().collect();
	if args.len() < 4 {
		eprintln!("usage: memsim <workload-seed> <first-history> <n-histories> [threads-only|no-threads]");
		std::process::exit(2);
	}
	let seed: u64 = args[1].parse().expect("seed");
	let first: u64 = args[2].parse().expect("first");
	let n: u64 = args[3].parse().expect("n");
	let mode = args.get(4).map(|s| s.as_str()).unwrap_or("");
	let mut stats = Stats::default();
	for i in first..first + n {
		let mut rng = Rng::for_run(seed, "C10", i);
		let t = match mode {
			"threads-only" => 5,
			"no-threads" => match rng.below(14) {
				5 => 7,
				6 | 7 => 9,
				8 | 9 => 11,
				10 | 11 => 13,
				12 => 15,
				13 => 16,
				x => x,
			},
			_ => rng.below(17),
		};
		let name = match t {
			0 => {
				t_build_freeze_use(&mut rng, &mut stats);
				"build-freeze-use"
			}
			1 => {
				t_freeze_errors(&mut rng, &mut stats);
				"freeze-errors"
			}
			2 => {
				t_borrowed(&mut rng, &mut stats);
				"borrowed"
			}
			3 => {
				t_reader(&mut rng, &mut stats);
				"reader"
			}
			4 => {
				t_reader_borrowed(&mut rng, &mut stats);
				"reader-borrowed"
			}
			7 | 8 => {
				t_reader_seed_borrow(&mut rng, &mut stats);
				"reader-seed-borrow"
			}
			9 | 10 => {
				t_reader_moves(&mut rng, &mut stats);
				"reader-moves"
			}
			11 | 12 => {
				t_scratch(&mut rng, &mut stats);
				"scratch-buffer"
			}
			13 | 14 => {
				t_panics(&mut rng, &mut stats);
				"panics"
			}
			15 => {
				t_long(&mut rng, &mut stats);
				"long"
			}
			16 => {
				t_tail(&mut rng, &mut stats);
				"tail"
			}
			_ => {
				t_threads(&mut rng, &mut stats);
				"threads"
			}
		};
		// state signature: template + multiset of op kinds so far is summarised at the end; per history: template + op count
		let mut f = prng::Fnv::new();
		f.str(name);
		for (k, v) in &stats.ops {
			f.str(k).u64((*v).min(3));
		}
		stats.sigs.insert(f.get());
	}
	let ops: Vec<String> = stats.ops.iter().map(|(k, v)| format!("\"{k}\":{v}")).collect();
	println!("MEMSIM-SUMMARY {{\"seed\":{seed},\"first\":{first},\"histories\":{n},\"distinct\":{},\"ops\":{{{}}}}}", stats.sigs.len(), ops.join(","));
}
