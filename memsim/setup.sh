#!/bin/bash
# pre-builds both lanes so that the first check does not pay for it
set -e
cd "$(dirname "$0")"
export CARGO_NET_OFFLINE=true
cargo +nightly miri setup >/dev/null 2>&1 || true
MIRIFLAGS="-Zmiri-seed=0" cargo +nightly miri run --offline -q -- 1 0 0 >/dev/null
RUSTFLAGS="-Zsanitizer=address" cargo +nightly build --offline -q --features ffi --target x86_64-unknown-linux-gnu
RUSTFLAGS="-Zsanitizer=address" cargo +nightly build --release --offline -q --features ffi --target x86_64-unknown-linux-gnu
echo "memsim setup done"
