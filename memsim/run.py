#!/usr/bin/env python3
"""Driver of the C10 check (see DESIGN.md §4 C10). Pure orchestration: every random choice is made by
memsim from the workload seed given on its command line, and by Miri from -Zmiri-seed."""
import json, os, re, subprocess, sys, time
from concurrent.futures import ThreadPoolExecutor

ROOT = sys.argv[1]
MODE = sys.argv[2] if len(sys.argv) > 2 else "quick"
ARG = sys.argv[3] if len(sys.argv) > 3 else ""
HERE = os.path.join(ROOT, "memsim")
SEED = int(os.environ.get("VERIF_SEED", "") or 20260927)
if os.environ.get("VERIF_TIER") and MODE in ("quick", "thorough"):
    MODE = os.environ["VERIF_TIER"]
JOBS = min(16, os.cpu_count() or 8)
TARGET = "x86_64-unknown-linux-gnu"

def sh(cmd, env=None, timeout=None):
    e = dict(os.environ)
    e["CARGO_NET_OFFLINE"] = "true"
    if env:
        e.update(env)
    try:
        p = subprocess.run(cmd, cwd=HERE, env=e, stdout=subprocess.PIPE, stderr=subprocess.STDOUT, text=True, timeout=timeout)
        return p.returncode, p.stdout
    except subprocess.TimeoutExpired as ex:
        return 124, (ex.stdout or "") + "\nTIMEOUT"

def miri_flags(job):
    rate = ["0", "0.05", "0.3", "0.1"][job["variant"] % 4]
    f = f"-Zmiri-seed={job['miri_seed']} -Zmiri-preemption-rate={rate}"
    if job.get("tree_borrows"):
        f += " -Zmiri-tree-borrows"
    return f

def run_miri(job):
    cmd = ["cargo", "+nightly", "miri", "run", "--offline", "-q", "--", str(job["workload_seed"]), str(job["first"]), str(job["n"])] + ([job["mode"]] if job.get("mode") else [])
    rc, out = sh(cmd, env={"MIRIFLAGS": miri_flags(job)}, timeout=3600)
    return rc, out

def asan_bin(job=None):
    # two ASan builds: dev profile (debug assertions and overflow checks on: the standard library's own precondition
    # checks fire first) and release profile (as the crate ships: the detector sees the access itself)
    build = "release" if job and job.get("build") == "release" else "debug"
    return os.path.join(os.environ.get("CARGO_TARGET_DIR") or os.path.join(HERE, "target"), TARGET, build, "memsim")

def run_asan(job):
    e = dict(os.environ)
    e["ASAN_OPTIONS"] = "detect_leaks=1:abort_on_error=0:halt_on_error=1"
    try:
        p = subprocess.run([asan_bin(job), str(job["workload_seed"]), str(job["first"]), str(job["n"])] + ([job["mode"]] if job.get("mode") else []),
                           cwd=HERE, env=e, stdout=subprocess.PIPE, stderr=subprocess.STDOUT, text=True, timeout=3600)
        return p.returncode, p.stdout
    except subprocess.TimeoutExpired as ex:
        return 124, (ex.stdout or "") + "\nTIMEOUT"

def run_job(job):
    return run_miri(job) if job["lane"] == "miri" else run_asan(job)

def summary_of(out):
    m = re.search(r"MEMSIM-SUMMARY (\{.*\})", out)
    return json.loads(m.group(1)) if m else None

def classify(rc, out):
    """None if the job held; otherwise a short violation kind"""
    if summary_of(out) is not None and rc == 0:
        return None
    if "MEMSIM-MISMATCH" in out:
        return "result-mismatch"
    if "unsafe precondition(s) violated" in out:
        # the standard library's own checks (debug builds) abort before the detector sees the access
        m = re.search(r"unsafe precondition\(s\) violated: ([^\n]*)", out)
        return "unsafe-precondition-violated:" + (m.group(1)[:80] if m else "")
    if "Undefined Behavior" in out:
        m = re.search(r"error: Undefined Behavior: ([^\n]*)", out)
        return "miri-ub:" + (m.group(1)[:80] if m else "")
    if "Data race detected" in out or "data race" in out.lower():
        return "miri-data-race"
    if "memory leaked" in out or "the evaluated program leaked memory" in out:
        return "miri-leak"
    if "ERROR: AddressSanitizer" in out:
        m = re.search(r"ERROR: AddressSanitizer: ([a-z\-]+)", out)
        return "asan:" + (m.group(1) if m else "")
    if "LeakSanitizer" in out:
        return "asan:leak"
    if "stack overflow" in out or "overflowed its stack" in out:
        return "stack-overflow"
    if "error: could not compile" in out or "error[E" in out:
        return "HARNESS-build-failed"
    if rc == 124:
        return "HARNESS-timeout"
    return f"HARNESS-unexpected-exit-{rc}"

def build():
    t0 = time.time()
    # Miri lane: a zero-history run builds everything
    rc, out = sh(["cargo", "+nightly", "miri", "run", "--offline", "-q", "--", str(SEED), "0", "0"], env={"MIRIFLAGS": "-Zmiri-seed=0"}, timeout=3600)
    if rc != 0 or "MEMSIM-SUMMARY" not in out:
        print("HARNESS-ERROR: Miri build/run failed:\n" + out[-3000:], file=sys.stderr)
        sys.exit(2)
    rc, out = sh(["cargo", "+nightly", "build", "--offline", "-q", "--features", "ffi", "--target", TARGET],
                 env={"RUSTFLAGS": "-Zsanitizer=address"}, timeout=3600)
    if rc != 0:
        print("HARNESS-ERROR: ASan build failed:\n" + out[-3000:], file=sys.stderr)
        sys.exit(2)
    rc, out = sh(["cargo", "+nightly", "build", "--release", "--offline", "-q", "--features", "ffi", "--target", TARGET],
                 env={"RUSTFLAGS": "-Zsanitizer=address"}, timeout=3600)
    if rc != 0:
        print("HARNESS-ERROR: ASan release build failed:\n" + out[-3000:], file=sys.stderr)
        sys.exit(2)
    return time.time() - t0

def replay(path):
    job = json.load(open(path))["job"]
    build()
    rc, out = run_job(job)
    kind = classify(rc, out)
    if kind is None:
        print(f"replay of {path}: property held")
        return 0
    if kind.startswith("HARNESS"):
        print("HARNESS-ERROR: " + kind + "\n" + out[-2000:], file=sys.stderr)
        return 2
    print(out[-2500:])
    print(f"REPLAY-VIOLATION kind={kind}")
    print(f"VIOLATION property=C10 replay={path}")
    return 1

def main():
    if MODE == "--replay":
        sys.exit(replay(ARG))
    t0 = time.time()
    build_s = build()
    thorough = MODE == "thorough"
    jobs = []
    # Miri lane: JOBS x rounds processes, each a slice of the workload under its own Miri seed
    per_job = 6 if not thorough else 16
    rounds = 1 if not thorough else 6
    idx = 0
    for r in range(rounds):
        for j in range(JOBS):
            threads_only = idx % 4 == 3
            # (what thread histories look for needs a particular interleaving: a few more of them)
            n = (per_job + 2 if not thorough else per_job * 2) if threads_only else per_job
            jobs.append({"lane": "miri", "workload_seed": SEED, "first": idx * per_job * 3, "n": n, "miri_seed": SEED % 100000 + idx,
                         "variant": idx, "tree_borrows": thorough and r % 3 == 2, "mode": "threads-only" if threads_only else ""})
            idx += 1
    # ASan lane: many more histories, all six codecs
    asan_n = 1500 if not thorough else 120000
    for j in range(JOBS):
        # real OS threads are not under a scheduler we control: the concurrency template stays in the Miri lane
        jobs.append({"lane": "asan", "workload_seed": SEED, "first": 1_000_000 + j * asan_n, "n": asan_n, "mode": "no-threads",
                     "build": "release" if j % 4 == 3 else "debug"})
    results = []
    with ThreadPoolExecutor(max_workers=JOBS) as ex:
        for job, (rc, out) in zip(jobs, ex.map(run_job, jobs)):
            results.append((job, rc, out))
    violations = []
    harness = []
    ops = {}
    histories = {"miri": 0, "asan": 0}
    executions = {"miri": 0, "asan": 0}
    distinct = 0
    samples = []
    for job, rc, out in results:
        kind = classify(rc, out)
        if kind is None:
            s = summary_of(out)
            histories[job["lane"]] += s["histories"]
            executions[job["lane"]] += 1
            distinct += s["distinct"]
            for k, v in s["ops"].items():
                ops[job["lane"] + ":" + k] = ops.get(job["lane"] + ":" + k, 0) + v
            if len(samples) < 2:
                samples.append({"job": job, "ops_of_this_execution": s["ops"]})
        elif kind.startswith("HARNESS"):
            harness.append((job, kind, out))
        else:
            violations.append((job, kind, out))
    exit_code = 0
    reported = []
    os.makedirs(os.path.join(ROOT, "replays"), exist_ok=True)
    seen = set()
    for job, kind, out in violations:
        if kind in seen:
            continue
        seen.add(kind)
        # minimise: find the first single history of the slice that fails on its own under the same flags
        minimal = dict(job)
        for h in range(job["first"], job["first"] + job["n"]):
            one = dict(job, first=h, n=1)
            rc1, out1 = run_job(one)
            if classify(rc1, out1) == kind:
                minimal = one
                out = out1
                break
        path = os.path.join(ROOT, "replays", f"C10-{SEED}-{minimal['lane']}-{minimal['first']}.json")
        json.dump({"property": "C10", "seed": SEED, "expect_kind": kind, "job": minimal, "output_tail": out[-4000:]}, open(path, "w"), indent=1)
        # confirm in a fresh process
        rc2, out2 = run_job(minimal)
        if classify(rc2, out2) == kind:
            print(f"violation kind={kind} lane={minimal['lane']} history={minimal['first']} n={minimal['n']}")
            print(out[-1500:])
            print(f"VIOLATION property=C10 replay={path}")
            reported.append({"kind": kind, "replay": path})
            exit_code = 1
        else:
            print(f"HARNESS-ERROR: {kind} does not replay ({path})", file=sys.stderr)
            if exit_code == 0:
                exit_code = 2
    for job, kind, out in harness:
        print(f"HARNESS-ERROR: {kind} in job {job}\n{out[-1500:]}", file=sys.stderr)
        if exit_code == 0:
            exit_code = 2
    wall = time.time() - t0
    total_hist = histories["miri"] + histories["asan"]
    evidence = {
        "property_id": "C10",
        "tier": MODE,
        "seed": SEED,
        "level": "exploration",
        "wall_s": wall,
        "violations": len(reported),
        "coverage": {
            "evaluations": max(1, total_hist),
            "distinct_nontrivial": max(distinct, 0),
            "rule": "A case is one API history generated from (workload seed, history index) by a typed generator over {parse, build graph through the public node API, edit (nodes_mut), freeze ok / error paths (dangling key in an unreachable node at every index, reachable dangling key, empty graph), render an unnamed-only cycle, move schema into Box / Vec that reallocates / Arc / another thread, clone Arc, serialize + deserialize, deserialize into targets borrowing from the input slice, enum symbol into owned and (refused) borrowed targets, open container reader (slice | owned reader; null | deflate | snappy; + bzip2 | xz | zstandard under ASan), read n, deserialize_next_borrowed, clone reader.schema(), move reader into Box / another thread, drop in PRNG-chosen order (handles before reader, reader before handles, reader mid-block, schema before values), a borrowing seed handed to a reader over an impl BufRead, a reader MOVED between two reads of one block (out of a Box whose slot is re-used, by a reallocating Vec, by a swap, out of a function, Option::take), values of widely varying sizes through readers with 1 to 8192-byte buffers (the scratch buffer: datum after datum on one reader, container files), a source or a sink that PANICS at a seeded call index (unwind caught; the object is then dropped, or used again and dropped), LONG histories on one object (a writer and a reader over 130-540 blocks — 66-78 under Miri — whose sizes follow a pattern: one large block then small ones then a medium one, growing, shrinking, spikes every 16 / 64 / 128 / 256; one serializer configuration and one deserializer state over hundreds of datums), a reader polled on past the end of its file into what FOLLOWS (a second complete file with the same schema in another spelling / another schema / the same file again, a header cut short, the magic followed by garbage) with every other schema handle dropped} and a concurrency template (2-3 threads on one &Schema or Arc<Schema>, results compared with sequential ones, main handle dropped while workers run). Every history is non-trivial (it always crosses the unsafe self-referential construction or the reader's fake-'static reference). distinct = distinct (template, saturated multiset of op kinds executed so far in the process), summed over executions. Under Miri each execution is one (workload slice, miri seed, preemption rate) triple: the interpreter's seeded scheduler decides every thread interleaving and allocation address.",
            "samples": samples,
            "miri_executions": executions["miri"],
            "miri_histories": histories["miri"],
            "asan_executions": executions["asan"],
            "asan_histories": histories["asan"],
            "asan_builds": "three jobs in four run the dev-profile build (debug assertions and overflow checks on: the standard library's own precondition checks fire first), one in four the release-profile build (as the crate ships: the detector sees the access itself)",
            "op_kinds_executed": ops,
            "histories_per_hour": int(total_hist / wall * 3600) if wall > 0 else 0,
            "build_s": build_s,
            "miri_flags": "default Stacked Borrows, data-race detector and weak-memory emulation on, leak check on, -Zmiri-preemption-rate in {0, 0.05, 0.1, 0.3}" + ("; every third round under -Zmiri-tree-borrows" if thorough else ""),
            "components": {
                "real": ["serde_avro_fast (path dependency on /repo/serde_avro_fast)", "serde", "miniz_oxide (deflate)", "snap (snappy)", "ASan lane only: libbz2, liblzma, libzstd"],
                "stubs": ["caller Serialize/Deserialize impls (Presented / Capture / derived structs)", "schedule and allocator: Miri"],
            },
            "violations_reported": reported,
            "exhaustive": False,
        },
        "assumptions": [
            "Miri cannot execute the C codecs (bzip2, xz, zstandard): those reader paths get the ASan lane only, which is the weaker detector (heap errors, leaks; no aliasing model, no data-race detector)",
            "unnamed-only cycles are rendered but never frozen or fingerprinted: that overflows the stack on the unchanged tree, which is an input-totality matter (C19), not a memory-safety violation",
            "thread interleavings are sampled by Miri's seeded scheduler, not enumerated",
        ],
    }
    os.makedirs(os.path.join(ROOT, "evidence"), exist_ok=True)
    json.dump(evidence, open(os.path.join(ROOT, "evidence", "C10.json"), "w"), indent=1)
    print(f"[C10] tier={MODE} seed={SEED} miri_executions={executions['miri']} miri_histories={histories['miri']} asan_histories={histories['asan']} build={build_s:.0f}s wall={wall:.0f}s exit={exit_code}")
    sys.exit(exit_code)

main()
