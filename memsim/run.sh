#!/bin/bash
# C10 driver: Miri lane (seeded scheduler + UB detector) and ASan lane (all six codecs).
#   run.sh quick | thorough | --replay <file>
# exit 0 held / 1 VIOLATION / 2 harness error
set -u
cd "$(dirname "$0")"
HERE="$(pwd)"
ROOT="$(cd .. && pwd)"
export CARGO_NET_OFFLINE=true
exec python3 "$HERE/run.py" "$ROOT" "$@"
